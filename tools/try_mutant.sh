#!/bin/bash
# usage: tools/try_mutant.sh <patch.diff> <tier> <PID> [extra run_check args]
# applies the patch to /repo, runs the check, always reverts.
set -u
patch=$1; tier=$2; pid=$3; shift 3
[ -f "${patch%patch.diff}patch.rebased.diff" ] && patch="${patch%patch.diff}patch.rebased.diff"
cd /repo || exit 9
if [ -n "$(git status --porcelain --untracked-files=no)" ]; then echo "/repo not clean"; exit 9; fi
git apply "$patch" || { echo "patch does not apply"; exit 9; }
cd /verif
/venv/bin/python run_check.py "$pid" --tier "$tier" "$@" 2>&1 | tail -8
rc=${PIPESTATUS[0]}
git -C /repo checkout -- .
echo "exit=$rc"
