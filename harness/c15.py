"""C15 - the class database is a stable bijection between classes and dense labels.

Pattern D.  A history is a sequence of state-changing requests (get_label(class),
get_class(class), is_empty(class, label), set_empty(label, true answer)); each request is one
solver variable (kind x class index), forked at the top of the harness.  After every request the
complete set of read-only queries the property talks about is made against the real ``ClassDB``
(label/class lookups, membership for every class of the pool and every integer in [-2, K+1]) and
compared with a reference dictionary.
"""
import itertools

from comb_spec_searcher.class_db import ClassDB, ClassToInfo, LabelToInfo

from vlib import core
from vlib.core import NoTracing, pick

LAST_FAILURE = None
NOPS = 4
K = 2
KINDS = 4  # G get_label, K get_class(class), E is_empty, S set_empty


def on_shape(shape):
    global NOPS, K
    NOPS = shape["n"] - len(shape.get("fixed", []))
    K = shape["K"]


def _fail(msg):
    global LAST_FAILURE
    LAST_FAILURE = msg
    return False


ASKED = {}


class StubBase:
    """A pool class: identity = idx; equal instances are distinct objects; coarse but legal hash."""

    def __init__(self, idx):
        self.idx = idx

    def __eq__(self, other):
        return isinstance(other, StubBase) and type(other) is type(self) and other.idx == self.idx

    def __hash__(self):
        return self.idx % 2  # collisions on purpose (a coarse hash is legal)

    def is_empty(self):
        ASKED[self.idx] = ASKED.get(self.idx, 0) + 1
        return self.idx % 2 == 1

    def __repr__(self):
        return "%s(%d)" % (type(self).__name__, self.idx)


class Plain(StubBase):
    def to_bytes(self):
        raise NotImplementedError

    @classmethod
    def from_bytes(cls, b):
        raise NotImplementedError


class Bytes(StubBase):
    def to_bytes(self):
        return bytes([self.idx, 7, 7, 7])

    @classmethod
    def from_bytes(cls, b):
        return cls(b[0])


class Mixed(StubBase):
    """Compression available for some classes of the universe only (to_bytes may decline)."""

    def to_bytes(self):
        if self.idx % 2 == 0:
            return bytes([self.idx, 9])
        raise NotImplementedError

    @classmethod
    def from_bytes(cls, b):
        return cls(b[0])


VARIANTS = {"plain": Plain, "bytes": Bytes, "mixed": Mixed}


def sweep(db, cls, ref, K):
    """All read-only queries; ref: list of class indices in label order."""
    for lab, idx in enumerate(ref):
        c = db.get_class(lab)
        if not (isinstance(c, cls) and c == cls(idx)):
            return _fail("get_class(%d) -> %r, stored %r" % (lab, c, cls(idx)))
        if db.get_label(cls(idx)) != lab:
            return _fail("get_label(%r) -> %r, expected %d" % (cls(idx), db.get_label(cls(idx)), lab))
        if db.get_label(lab) != lab:
            return _fail("get_label(label %d) wrong" % lab)
    for i in range(K):
        try:
            got = cls(i) in db
        except Exception as e:  # noqa: BLE001
            return _fail("membership of class %d raised %r" % (i, e))
        if got is not (i in ref):
            return _fail("(%r in db) -> %r, expected %r" % (cls(i), got, i in ref))
    for x in range(-2, K + 2):
        try:
            got = x in db
        except Exception as e:  # noqa: BLE001
            return _fail("membership of integer %d raised %r (known labels: 0..%d)" % (x, e, len(ref) - 1))
        if got is not (0 <= x < len(ref)):
            return _fail("(%d in db) -> %r with labels 0..%d" % (x, got, len(ref) - 1))
    if sorted(db) != list(range(len(ref))):
        return _fail("iteration over labels gives %r" % (sorted(db),))
    return True


def run_history(variant, K, ops):
    cls = VARIANTS[variant]
    ASKED.clear()
    db = ClassDB(cls)
    ref = []  # label -> class idx
    for v in ops:
        kind, i = divmod(v, K)
        if kind == 0:
            lab = db.get_label(cls(i))
            if i not in ref:
                ref.append(i)
            if lab != ref.index(i):
                return _fail("get_label(%r) -> %r, expected %d (dense, first appearance)" % (cls(i), lab, ref.index(i)))
        elif kind == 1:
            c = db.get_class(cls(i))
            if i not in ref:
                ref.append(i)
            if not (isinstance(c, cls) and c == cls(i)):
                return _fail("get_class(class %d) -> %r" % (i, c))
        elif kind == 2:
            if i not in ref:
                continue  # emptiness is only asked about labelled classes
            e = db.is_empty(cls(i), ref.index(i))
            if e is not (i % 2 == 1):
                return _fail("is_empty(%r) -> %r" % (cls(i), e))
            if ASKED.get(i, 0) > 1:
                return _fail("class %d was asked is_empty %d times" % (i, ASKED[i]))
        else:
            if i not in ref:
                continue
            db.set_empty(ref.index(i), i % 2 == 1)
        if not sweep(db, cls, ref, K):
            return False
    # final: emptiness of every labelled class equals the class's own answer, asked at most once overall
    for lab, idx in enumerate(ref):
        if db.is_empty(cls(idx), lab) is not (idx % 2 == 1):
            return _fail("cached emptiness of %r differs from the class's own answer" % (cls(idx),))
        if db.is_empty(cls(idx)) is not (idx % 2 == 1):
            return _fail("is_empty without label differs")
        if ASKED.get(idx, 0) > 1:
            return _fail("class %d was asked is_empty %d times" % (idx, ASKED[idx]))
    return sweep(db, cls, ref, K)


def _body(vs):
    sh = core.SHAPE
    ops = tuple(sh.get("fixed", [])) + tuple(pick(v, 0, KINDS * K - 1) for v in vs)
    with NoTracing():
        core.tally(ops)
        return run_history(sh["variant"], sh["K"], ops)


def _inb(*vs):
    for v in vs:
        if not (0 <= v < KINDS * K):
            return False
    return True


def check_o1(a: int) -> bool:
    """
    pre: _inb(a)
    post: _
    """
    return core.final(_body((a,)))


def check_o2(a: int, b: int) -> bool:
    """
    pre: _inb(a, b)
    post: _
    """
    return core.final(_body((a, b)))


def check_o3(a: int, b: int, c: int) -> bool:
    """
    pre: _inb(a, b, c)
    post: _
    """
    return core.final(_body((a, b, c)))


def check_o4(a: int, b: int, c: int, d: int) -> bool:
    """
    pre: _inb(a, b, c, d)
    post: _
    """
    return core.final(_body((a, b, c, d)))


def check_o5(a: int, b: int, c: int, d: int, e: int) -> bool:
    """
    pre: _inb(a, b, c, d, e)
    post: _
    """
    return core.final(_body((a, b, c, d, e)))


def groups(tier):
    gs = []

    def add(variant, K, n, nfix, timeout=900.0):
        for fixed in itertools.product(range(KINDS * K), repeat=nfix):
            m = n - nfix
            gs.append({"name": "%s-K%d-n%d-%s" % (variant, K, n, "_".join(map(str, fixed))), "fn": "check_o%d" % m,
                       "shape": {"variant": variant, "K": K, "n": n, "fixed": list(fixed)},
                       "cond_timeout": timeout, "path_timeout": 30.0, "expect_space": (KINDS * K) ** m,
                       "weight": (KINDS * K) ** m})

    for variant in VARIANTS:
        if tier == "quick":
            add(variant, 3, 3, 1)
            add(variant, 2, 4, 1)
        else:
            add(variant, 3, 4, 1)
            add(variant, 2, 5, 1)
            add(variant, 4, 3, 1)
    return gs


def selftest(tier):
    return {}


def meta(tier):
    return {
        "functions": [ClassDB.__contains__, ClassDB.add, ClassDB._get_info, ClassDB._compress, ClassDB._decompress,
                      ClassDB.get_class, ClassDB.get_label, ClassDB.is_empty, ClassDB._is_empty, ClassDB.set_empty,
                      LabelToInfo.__getitem__, ClassToInfo.__getitem__, ClassToInfo.__contains__],
        "bounds": {"quick": "histories of 3 requests over a pool of 3 classes and of 4 requests over 2 classes; three storage variants "
                            "(no compression, zlib compression, compression available for some classes only); after each request "
                            "all lookups and membership of every pool class and every integer in [-2,K+1]",
                   "thorough": "4 requests over 3 classes, 5 over 2, 3 over 4; same variants"}[tier],
        "outside": ["classes whose to_bytes/from_bytes do not round-trip or whose __eq__/__hash__ are inconsistent (user contract)",
                    "membership of keys that are neither a class nor an int (documented ValueError)",
                    "is_empty of a class that was never labelled"],
        "stubs": ["pool classes Plain/Bytes/Mixed with a deliberately coarse (colliding) hash"],
        "assumptions": ["set_empty is only issued with the class's true answer (contract-respecting callers)"],
    }
