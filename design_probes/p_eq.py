from typing import List, Tuple
from comb_spec_searcher.equiv_db import EquivalenceDB

L = 3
def reach(edges, L):
    r = [[i == j for j in range(L)] for i in range(L)]
    for a, b in edges:
        r[a][b] = True
    for k in range(L):
        for i in range(L):
            for j in range(L):
                if r[i][k] and r[k][j]:
                    r[i][j] = True
    return r

def check(ops: List[Tuple[int, int, int]]) -> bool:
    """
    pre: len(ops) <= 3
    pre: all(0 <= k <= 2 and 0 <= a < 3 and 0 <= b < 3 for (k, a, b) in ops)
    post: _
    """
    db = EquivalenceDB()
    edges = []
    ver = set()
    for k, a, b in ops:
        if k == 0:
            db.add_two_way_edge(a, b); edges.append((a, b)); edges.append((b, a))
        elif k == 1:
            db.add_one_way_edge(a, b); edges.append((a, b))
        else:
            db.set_verified(a); ver.add(a)
    db.connect_cycles()
    r = reach(edges, L)
    for i in range(L):
        for j in range(L):
            if db.equivalent(i, j) != (r[i][j] and r[j][i]):
                return False
            if r[i][j] and r[j][i]:
                p = db.find_path(i, j)
                if p[0] != i or p[-1] != j:
                    return False
                for x, y in zip(p, p[1:]):
                    if (x, y) not in edges:
                        return False
        v = any(r[i][j] and r[j][i] and j in ver for j in range(L))
        if db.is_verified(i) != v:
            return False
    return True
