import sys, logging, logzero, time, traceback
sys.path.insert(0, '/tmp/probe/reg'); sys.path.insert(0, '/tmp/probe')
from reg2 import *
from run02 import check_spec, unfold
from comb_spec_searcher.rule_db import RuleDB, RuleDBForgetStrategy, RuleDBForest
from comb_spec_searcher.strategies.rule import VerificationRule
logzero.loglevel(logging.CRITICAL)
res = Counter(); t0 = time.time(); N = 6
for T in tables(int(sys.argv[1])):
    start = Lang(T, 0); truth = [len(list(start.objects_of_size(n))) for n in range(N + 1)]
    for dbc in (RuleDB, RuleDBForgetStrategy, RuleDBForest):
        pk = mkpack(('finite',))
        s = CombinatorialSpecificationSearcher(start, pk, ruledb=dbc()); s.status = lambda elaborate: ""
        try: spec = s.auto_search()
        except Exception as e: res['search-exc'] += 1; continue
        nver = sum(1 for r in spec.rules_dict.values() if isinstance(r, VerificationRule) and isinstance(r.strategy, FiniteLang))
        before = [spec.count_objects_of_size(n) for n in range(N + 1)]
        ids_before = {id(r) for r in unfold(spec)}
        try:
            e = spec.expand_verified()
        except Exception as ex:
            k = ('expand-exc', type(ex).__name__, str(ex)[:40]); res[k] += 1
            if res[k] == 1: traceback.print_exc(); print(T.key(), dbc.__name__)
            continue
        pr = []
        if [e.count_objects_of_size(n) for n in range(N + 1)] != truth: pr.append('wrong-count')
        if list(e.unexpanded_verified_classes()): pr.append('still-verified')
        if nver and e is not spec and ids_before & {id(r) for r in unfold(e)}: pr.append('shared-rule-object')
        if [spec.count_objects_of_size(n) for n in range(N + 1)] != before: pr.append('original-changed')
        if e.root != start: pr.append('root-changed')
        pr += [p if isinstance(p, str) else p[0] for p in check_spec(e, pack(), start, lambda c: c.is_empty())]
        k = (min(nver, 2), tuple(sorted(set(pr))) or ('ok',)); res[k] += 1
        if pr and res[k] == 1: print(k, T.key(), dbc.__name__)
for k, v in sorted(res.items(), key=str): print(v, k)
print(time.time() - t0)
