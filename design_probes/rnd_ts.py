import random, sys, itertools
from collections import defaultdict
from copy import deepcopy
from comb_spec_searcher.tree_searcher import *
from comb_spec_searcher.tree_searcher import random_proof_tree, smallish_random_proof_tree, iterative_prune, iterative_proof_tree_finder, proof_tree_generator_bfs
def gfp(rd):
    alive = set(rd)
    while True:
        new = {k for k in alive if any(all(c in alive for c in r) for r in rd[k])}
        if new == alive: break
        alive = new
    return {k: {r for r in rd[k] if all(c in alive for c in r)} for k in alive}
def valid_tree(node, rd, root):
    # every internal node uses a present rule; one rule per label; leaves: ()-rule, or label expanded elsewhere
    rules = {}
    for n in node.nodes():
        ch = tuple(sorted(c.label for c in n.children))
        if n.children:
            if ch not in rd.get(n.label, ()): return False
            if n.label in rules and rules[n.label] != ch: return False
            rules[n.label] = ch
    for n in node.nodes():
        if not n.children:
            if n.label not in rules and () not in rd.get(n.label, ()): return False
    return node.label == root
def min_tree_size(rd, root, cap=12):
    best = [None]
    def rec(todo, seen, size):
        if best[0] is not None and size >= best[0]: return
        if size > cap: return
        if not todo: best[0] = size; return
        l, rest = todo[0], todo[1:]
        if l in seen: rec(rest, seen, size + 1); return
        for r in sorted(rd[l]):
            rec(tuple(r) + rest, seen | {l}, size + 1)
    rec((root,), frozenset(), 0)
    return best[0]
rng = random.Random(int(sys.argv[1])); bad = defaultdict(int)
for t in range(int(sys.argv[2])):
    L = rng.randint(1, 4); rd = defaultdict(set)
    for _ in range(rng.randint(1, 7)):
        p = rng.randrange(L); k = rng.randint(0, 2); rd[p].add(tuple(sorted(rng.randrange(L) for _ in range(k))))
    ref = gfp(rd); got = deepcopy(rd); prune(got)
    if {k: v for k, v in got.items()} != ref: bad['prune'] += 1; print('prune', dict(rd), dict(got), ref) if bad['prune'] < 3 else None
    for root in ref:
        for f in (lambda: random_proof_tree(got, root), lambda: next(proof_tree_generator_dfs(got, root)), lambda: next(proof_tree_generator_bfs(got, root))):
            tr = f()
            if not valid_tree(tr, got, root): bad['invalid'] += 1; print('invalid', dict(got), root, tr) if bad['invalid'] < 3 else None
        m = min_tree_size(got, root)
        sizes = [len(x) for x in itertools.islice(proof_tree_generator_dfs(got, root), 2000)]
        if m is not None and min(sizes) != m: bad['min'] += 1; print('min', dict(got), root, m, min(sizes)) if bad['min'] < 3 else None
        # binary search as in _get_smallest_node
        node = random_proof_tree(got, root); lo, hi = 1, len(node)
        while lo < hi:
            mid = (lo + hi) // 2
            try:
                node = next(proof_tree_generator_dfs(got, root, maximum=mid)); hi = min(mid, len(node))
            except StopIteration: lo = mid + 1
        if m is not None and len(node) != m: bad['smallest'] += 1; print('smallest', dict(got), root, m, len(node), node) if bad['smallest'] < 3 else None
print(dict(bad))
