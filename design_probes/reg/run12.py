import sys, logging, logzero, traceback, time
sys.path.insert(0, '/tmp/probe/reg')
from reg import *
from comb_spec_searcher.bijection import ParallelSpecFinder, EqPathParallelSpecFinder
from comb_spec_searcher.isomorphism import Bijection, Isomorphism
logzero.loglevel(logging.CRITICAL)
def mk(T):
    s = CombinatorialSpecificationSearcher(Lang(T, 0), pack()); s.status = lambda elaborate: ""; return s
def seq(T, N=6): return tuple(len(list(Lang(T, 0).objects_of_size(n))) for n in range(N + 1))
Ts = [T for T in tables(2) if 0 in T.live]; res = Counter(); t0 = time.time()
specs = {}
for T in Ts: specs[T.key()] = mk(T).auto_search()
for T1 in Ts:
    for T2 in Ts:
        same = seq(T1) == seq(T2)
        # isomorphism symmetry
        def chk(x, y):
            try: return Isomorphism.check(x, y)
            except AssertionError: return 'AssertionError'
        a = chk(specs[T1.key()], specs[T2.key()]); b = chk(specs[T2.key()], specs[T1.key()])
        if 'AssertionError' in (a, b):
            res[('iso-raises', a, b)] += 1
            if res[('iso-raises', a, b)] == 1: print('iso-raises', a, b, T1.key(), T2.key())
            a = False
        if a != b: res['iso-asym'] += 1
        if T1 is T2 and not a: res['iso-nonrefl'] += 1; 
        if a and not same: res['iso-but-diff-seq'] += 1
        if a:
            bij = Bijection.construct(specs[T1.key()], specs[T2.key()])
            try:
                for n in range(6):
                    dom = list(Lang(T1, 0).objects_of_size(n)); cod = set(Lang(T2, 0).objects_of_size(n))
                    img = [bij.map(o) for o in dom]
                    assert set(img) == cod and len(set(img)) == len(img), (n, dom, img, cod)
                    assert all(bij.inverse_map(bij.map(o)) == o for o in dom)
                res['bij-ok'] += 1
            except Exception as e:
                k = 'bij-bad ' + type(e).__name__; res[k] += 1
                if res[k] == 1: traceback.print_exc(); print(T1.key(), T2.key())
        for F in (ParallelSpecFinder, EqPathParallelSpecFinder):
            try:
                r = F(mk(T1), mk(T2)).find()
                res[(F.__name__, 'none' if r is None else 'pair', same)] += 1
                if r is not None and not Isomorphism.check(*r): res[(F.__name__, 'pair-not-iso')] += 1
            except Exception as e:
                k = (F.__name__, 'EXC', type(e).__name__, str(e)[:40]); res[k] += 1
                if res[k] == 1: print(k, T1.key(), T2.key())
for k, v in sorted(res.items(), key=str): print(v, k)
print(time.time() - t0)
