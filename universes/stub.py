"""STUB universe: stub combinatorial classes and stub strategies that *subclass the real*
DisjointUnionStrategy / CartesianProductStrategy, so that the real Rule / ReverseRule /
EquivalenceRule / EquivalencePathRule / DisjointUnion / Complement / CartesianProduct / Quotient
code runs on term tables, object lists and minimum sizes chosen by the harness."""
from typing import Dict, Optional, Tuple

from comb_spec_searcher.strategies.strategy import CartesianProductStrategy, DisjointUnionStrategy


class K:
    """A stub combinatorial class: a name plus the declared data the library reads."""

    def __init__(self, name: int, min_size=0, atom=False, params=(), min_values=None, empty=False):
        self.name = name
        self.m = min_size
        self.atom = atom
        self._p = tuple(params)
        self._mv = dict(min_values or {})
        self.empty = empty

    @property
    def extra_parameters(self):
        return self._p

    def minimum_size_of_object(self):
        return self.m

    def is_atom(self):
        return self.atom

    def is_empty(self):
        return self.empty

    def get_minimum_value(self, p):
        return self._mv.get(p, 0)

    def __eq__(self, o):
        return isinstance(o, K) and o.name == self.name

    def __hash__(self):
        return self.name

    def __repr__(self):
        return "K%s" % (self.name,)


class _Maps:
    def __init__(self, children, maps=None, **kw):
        super().__init__(**kw)
        self.ch = tuple(children)
        self.maps = tuple(dict(m) for m in maps) if maps is not None else tuple({} for _ in self.ch)

    def decomposition_function(self, c):
        return self.ch

    def extra_parameters(self, c, children=None):
        return self.maps

    def formal_step(self):
        return type(self).__name__

    @classmethod
    def from_dict(cls, d):
        raise NotImplementedError


class Union(_Maps, DisjointUnionStrategy):
    """Objects of the parent are the objects of the children (identity bijection)."""

    where = None  # optional: callable object -> index of the child containing it

    def forward_map(self, c, obj, children=None):
        # objects are tagged tuples (child index, payload) unless `where` says otherwise
        idx = self.where(obj) if self.where is not None else obj[0]
        return tuple(obj if i == idx else None for i in range(len(self.ch)))


class Prod(_Maps, CartesianProductStrategy):
    """Objects of the parent are tuples of the children's objects."""

    def backward_map(self, c, objs, children=None):
        yield tuple(objs)

    def forward_map(self, c, obj, children=None):
        return tuple(obj)
