import sys, logging, logzero, time, pickle, traceback
sys.path.insert(0, '/tmp/probe/reg')
from reg2 import *
import comb_spec_searcher.comb_spec_searcher as cssmod, comb_spec_searcher.class_db as m1, comb_spec_searcher.rule_db.forest as m2, comb_spec_searcher.tree_searcher as m3, comb_spec_searcher.utils as m4
from comb_spec_searcher.rule_db import RuleDB, RuleDBForgetStrategy, RuleDBForest
from comb_spec_searcher.exception import ExceededMaxtimeError, SpecificationNotFound
logzero.loglevel(logging.CRITICAL)
class Clock:
    def __init__(self, jumps): self.jumps = set(jumps); self.i = 0; self.t = 1000.0
    def time(self):
        if self.i in self.jumps: self.t += 5000.0
        self.i += 1; self.t += 1.0; return self.t
def install(c):
    for m in (cssmod, m1, m2, m3, m4): m.time = c
def universe(s):
    db = s.ruledb
    if isinstance(db, RuleDBForest): rules = sorted(map(repr, db.table_method._rules))
    else: rules = (sorted(db.rule_to_strategy), sorted(db.eqv_rule_to_strategy))
    return (list(s.classdb.comb_class_list), list(s.classdb.empty_list), rules)
res = Counter(); t0 = time.time()
m3.choice = lambda seq: seq[0]; m3.shuffle = lambda x: None
for T in tables(2):
    for dbc in (RuleDB, RuleDBForgetStrategy, RuleDBForest):
        for j in range(0, 40):
            start = Lang(T, 0)
            # uninterrupted reference
            install(Clock([])); ref = CombinatorialSpecificationSearcher(start, mkpack(()), ruledb=dbc()); ref.status = lambda elaborate: ""
            try: rspec = ref.auto_search()
            except Exception as e:
                res['ref-exc'] += 1
                if res['ref-exc'] == 1: traceback.print_exc()
                continue
            install(Clock([j])); s = CombinatorialSpecificationSearcher(start, mkpack(()), ruledb=dbc())
            try:
                try:
                    spec = s._auto_search_rules(max_expansion_time=100.0); interrupted = False
                except ExceededMaxtimeError:
                    interrupted = True
                    s2 = pickle.loads(pickle.dumps(s))
                    eq = (s2 == s)
                    install(Clock([])); specA = list(s._auto_search_rules())
                    install(Clock([])); specB = list(s2._auto_search_rules())
                    same = universe(s) == universe(s2) and s.classqueue == s2.classqueue
                    from comb_spec_searcher import CombinatorialSpecification
                    cA = CombinatorialSpecification(start, specA); cB = CombinatorialSpecification(start, specB)
                    ok = all(cA.count_objects_of_size(n) == cB.count_objects_of_size(n) == rspec.count_objects_of_size(n) for n in range(6))
                    res[('interrupted', dbc.__name__, 'eq' if eq else 'NE', 'same' if same else 'DIFF', 'ok' if ok else 'WRONG', 'specsame' if cA == cB else 'specdiff')] += 1
                    continue
                res[('not-interrupted', dbc.__name__)] += 1
            except Exception as e:
                k = ('EXC', dbc.__name__, type(e).__name__, str(e)[:60]); res[k] += 1
                if res[k] == 1: traceback.print_exc(); print(T.key(), j)
for k, v in sorted(res.items(), key=str): print(v, k)
print(time.time() - t0)
