import sys
sys.path.insert(0, '/tmp/probe/reg')
from reg import *
from comb_spec_searcher.strategies.strategy import VerificationStrategy, StrategyFactory, SymmetryStrategy
from comb_spec_searcher.exception import InvalidOperationError

def finite(t, q):
    # language from q finite iff no cycle among live states reachable from q
    reach = {q}; st = [q]
    while st:
        x = st.pop()
        for y in t.delta[x]:
            if y not in reach: reach.add(y); st.append(y)
    liv = [x for x in reach if x in t.live]
    # cycle detection among live states
    color = {}
    def dfs(x):
        color[x] = 1
        for y in t.delta[x]:
            if y not in t.live: continue
            if color.get(y) == 1: return True
            if y not in color and dfs(y): return True
        color[x] = 2; return False
    return not any(dfs(x) for x in liv if x not in color)

class FiniteLang(VerificationStrategy):
    def verified(self, c): return (not c.atom) and (not c.is_empty()) and finite(c.t, c.q)
    def formal_step(self): return "finite language"
    def pack(self, c): return pack()
    @classmethod
    def from_dict(cls, d): return cls()
    def __repr__(self): return "FiniteLang()"

class MergeState(DisjointUnionStrategy):
    def __init__(self): super().__init__(ignore_parent=True, inferrable=True, possibly_empty=False, workable=True)
    def decomposition_function(self, c):
        if c.atom: return None
        row = (c.t.delta[c.q], c.t.acc[c.q])
        for r in range(c.q):
            if (c.t.delta[r], c.t.acc[r]) == row: return (Lang(c.t, r, c.prefix, False, c.stats),)
        return None
    def extra_parameters(self, c, children=None): return ({"k": "k"} if c.stats else {},)
    def formal_step(self): return "merge state"
    def forward_map(self, c, obj, children=None): return (obj,)
    @classmethod
    def from_dict(cls, d): return cls()
    def __repr__(self): return "MergeState()"

def swap_table(t):
    return Table(tuple((r[1], r[0]) for r in t.delta), t.acc)
def swap_word(w): return W(''.join('b' if c == 'a' else 'a' for c in w))
class SwapLetters(SymmetryStrategy):
    def decomposition_function(self, c):
        if c.stats: return None
        return (Lang(swap_table(c.t), c.q, swap_word(c.prefix), c.atom, c.stats),)
    def extra_parameters(self, c, children=None): return ({},)
    def formal_step(self): return "swap letters"
    def forward_map(self, c, obj, children=None): return (swap_word(obj),)
    def backward_map(self, c, objs, children=None): yield swap_word(objs[0])
    @classmethod
    def from_dict(cls, d): return cls()
    def __repr__(self): return "SwapLetters()"

class MixFactory(StrategyFactory):
    def __call__(self, c):
        yield SplitFirst()
        if not c.atom and c.prefix and not c.is_empty():
            yield PeelPrefix()(c)                       # ready rule
            yield SplitFirst()(Lang(c.t, c.q, "", False, c.stats))   # rule for a different parent
    def __str__(self): return "mix"
    def __repr__(self): return "MixFactory()"
    @classmethod
    def from_dict(cls, d): return cls()

def mkpack(opts):
    ver = [AtomStrategy()] + ([FiniteLang()] if 'finite' in opts else [])
    inf = [MergeState()] if 'inferral' in opts else []
    sym = [SwapLetters()] if 'symmetry' in opts else []
    exp = [[MixFactory()]] if 'factory' in opts else [[SplitFirst()]]
    return StrategyPack(initial_strats=[PeelPrefix()], inferral_strats=inf, expansion_strats=exp, ver_strats=ver, symmetries=sym, name="reg", iterative='iterative' in opts)
