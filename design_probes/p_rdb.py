import logzero, logging
from comb_spec_searcher.rule_db.base import RuleDB
from comb_spec_searcher.strategies.rule import VerificationRule
logzero.loglevel(logging.CRITICAL)
class Pack: 
    def __init__(self, it): self.iterative = it
class CDB:
    def is_empty(self, c, l=None): return False
class Q:
    def set_stop_yielding(self, l): pass
class Searcher:
    def __init__(self, it, root): self.strategy_pack = Pack(it); self.classdb = CDB(); self.classqueue = Q(); self.start_label = root
class StubRule:
    def __init__(self, n, two): self.children = tuple(range(n)); self.possibly_empty = False; self._two = two; self.strategy = ('strat', n, two)
    def is_two_way(self): return self._two
class VR(VerificationRule):
    def __init__(self): pass
    children = ()
    possibly_empty = False
    strategy = 'ver'
    def is_two_way(self): return False
db = RuleDB(); db.link_searcher(Searcher(True, 0))
db.add(0, (1,), StubRule(1, True))
db.add(1, (2, 3), StubRule(2, False))
db.add(2, (1, 3), StubRule(2, False))
db.add(3, (), VR())
print('rep of 0:', db.equivdb[0], 'has_spec (iterative):', db.has_specification())
db2 = RuleDB(); db2.link_searcher(Searcher(True, 1))
db2.add(0, (1,), StubRule(1, True)); db2.add(1, (2, 3), StubRule(2, False)); db2.add(2, (1, 3), StubRule(2, False)); db2.add(3, (), VR())
print('root=1 rep:', db2.equivdb[1], 'has_spec:', db2.has_specification())
if db2.has_specification(): print(db2._get_iterative_node())
