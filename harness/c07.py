"""C07 - object generation yields exactly the objects of the class, each once.

(a)+(b) pattern T on the STUB universe, same configuration catalogue as C09: the *number of objects* of every
(child, size, statistic value) is a solver variable in [0,2]; objects are distinct tagged tuples.  The real
Rule._ensure_level_objects / get_sub_objects / compositions / backward maps must generate exactly the reference
multiset of the parent (each object once, filed under the right statistic values), its size must equal the count the
same rule reports, and for every form with object maps (plain, equivalence, reverse-of-equivalence, equivalence path)
forward then backward returns the object and the parts are objects of the corresponding child.
(c) whole specifications on REG: part of the end-to-end group (harness/e2e).
(d) fault schedule: a generation call is interrupted by an exception raised from a child's provider at the f-th provider call
(f a solver variable) and the same rule object is asked again - it must still generate exactly the reference objects.
"""
import itertools
from collections import Counter, defaultdict
from typing import List

from comb_spec_searcher.strategies.constructor import CartesianProduct, DisjointUnion
from comb_spec_searcher.strategies.rule import EquivalencePathRule, EquivalenceRule, ReverseRule, Rule
from comb_spec_searcher.utils import compositions

import harness.c09 as c09
from universes.stub import K, Prod, Union
from vlib import core

LAST_FAILURE = None
LEN = 0
B = 2
LO: List[int] = []


def _fail(msg):
    global LAST_FAILURE
    LAST_FAILURE = msg
    return False


def on_shape(shape):
    global LEN, B, LO
    if "db" in shape:
        e2e.on_shape(shape)
        return
    if shape.get("kind") == "ver":
        return
    c09.on_shape(shape)
    LEN, LO = c09.LEN, list(c09.LO)
    B = shape["B"]
    from typing import Tuple
    check.__annotations__["t"] = Tuple[(int,) * LEN] if LEN else Tuple[()]
    check_retry.__annotations__["t"] = check.__annotations__["t"]


def objs_from_counts(tab, tag):
    """{n: {params: count}} -> {n: {params: [objects]}} with distinct tagged objects"""
    out = {}
    for n, row in tab.items():
        for vals, cnt in row.items():
            lst = []
            j = 0
            while j < cnt:  # cnt may be symbolic: the loop forks on its value
                lst.append((tag, n, vals, j))
                j += 1
            out.setdefault(n, {})[vals] = lst
    return out


def oprovider(otab):
    def f(n):
        d = defaultdict(list)
        for vals, lst in otab.get(n, {}).items():
            if lst:
                d[vals] = list(lst)
        return d
    return f


def cprovider(otab):
    def f(n):
        return Counter({vals: len(lst) for vals, lst in otab.get(n, {}).items() if lst})
    return f


def same_objects(got, exp, what, n):
    keys = set(k for k, v in got.items() if v) | set(k for k, v in exp.items() if v)
    for k in keys:
        g = list(got.get(k, []))
        e = list(exp.get(k, []))
        if len(set(g)) != len(g):
            return _fail("%s size %d: an object is generated twice under %r: %r" % (what, n, k, g))
        if sorted(g) != sorted(e):
            return _fail("%s size %d statistic %r: generated %r, the objects are %r" % (what, n, k, g, e))
    return True


def union_objects(shape, otabs):
    P = shape["parent"]["params"]
    res = {}
    for i, otab in enumerate(otabs):
        m = shape["maps"][i]
        cp = shape["children"][i]["params"]
        for n, row in otab.items():
            for vals, lst in row.items():
                d = dict(zip(cp, vals))
                pp = tuple(d[m[q]] if q in m else 0 for q in P)
                res.setdefault(n, {}).setdefault(pp, []).extend(lst)
    return res


def product_objects(shape, otabs):
    P = shape["parent"]["params"]
    res = {}
    rows = [[(n, vals, lst) for n, row in otab.items() for vals, lst in row.items()] for otab in otabs]
    for combo in itertools.product(*rows):
        n = sum(c[0] for c in combo)
        pp = [0] * len(P)
        for i, (ni, vals, lst) in enumerate(combo):
            m = shape["maps"][i]
            d = dict(zip(shape["children"][i]["params"], vals))
            for qi, q in enumerate(P):
                if q in m:
                    pp[qi] += d[m[q]]
        for parts in itertools.product(*[c[2] for c in combo]):
            res.setdefault(n, {}).setdefault(tuple(pp), []).append(tuple(parts))
    return res


def audit_rule(rule, providers_o, providers_c, exp, N, what):
    rule.subobjects = tuple(providers_o)
    rule.subterms = tuple(providers_c)
    for n in [N] + list(range(N + 1)):  # the largest size first: the cache is filled through all smaller levels
        got = rule.get_objects(n)
        if not same_objects(got, exp.get(n, {}), what, n):
            return False
        terms = rule.get_terms(n)
        for k in set(terms) | set(got):
            if terms.get(k, 0) != len(got.get(k, [])):
                return _fail("%s size %d: %d objects generated under %r but the rule counts %r" % (what, n, len(got.get(k, [])), k, terms.get(k, 0)))
    return True


def run_config(shape, t):
    kids = [c09.mk_class(i + 1, ch) for i, ch in enumerate(shape["children"])]
    live = [i for i, ch in enumerate(shape["children"]) if not ch.get("empty")]
    if shape["kind"] == "product":
        pmin = sum(c.m for c in kids)
    else:
        pmin = min(kids[i].m for i in live)
    parent = K(0, pmin, False, shape["parent"]["params"])
    strat = (Prod if shape["kind"] == "product" else Union)(kids, shape["maps"])
    tabs = c09.tables_from(shape, t)
    otabs = [objs_from_counts(tb, i) for i, tb in enumerate(tabs)]
    pobjs = (product_objects if shape["kind"] == "product" else union_objects)(shape, otabs)
    N = c09.max_size(shape) + 1
    forms = shape["forms"]
    if "fwd" in forms:
        rule = strat(parent)
        if not audit_rule(rule, [oprovider(o) for o in otabs], [cprovider(o) for o in otabs], pobjs, N, "forward rule"):
            return False
        # maps: object -> parts -> object
        for n, row in pobjs.items():
            for pp, lst in row.items():
                for o in lst:
                    parts = rule.forward_map(o)
                    if len(parts) != len(kids):
                        return _fail("forward_map returns %d parts" % len(parts))
                    for i, part in enumerate(parts):
                        if part is not None and not any(part in l for r in otabs[i].values() for l in r.values()):
                            return _fail("forward_map(%r): part %r is not an object of child %d" % (o, part, i))
                    back = list(rule.backward_map(parts))
                    if back != [o]:
                        return _fail("backward_map(forward_map(%r)) = %r" % (o, back))
    if "eq" in forms:
        assert len(live) == 1
        i = live[0]
        er = strat(parent).to_equivalence_rule()
        if not audit_rule(er, [oprovider(otabs[i])], [cprovider(otabs[i])], pobjs, N, "equivalence form"):
            return False
        rev = None
        if "eqrev" in forms:
            rev = strat(parent).to_equivalence_rule().to_reverse_rule(0)
        for n, row in pobjs.items():
            for pp, lst in row.items():
                for o in lst:
                    parts = er.forward_map(o)
                    if len(parts) != 1 or parts[0] is None or not any(parts[0] in l for r in otabs[i].values() for l in r.values()):
                        return _fail("equivalence form: forward_map(%r) = %r is not an object of the non-empty child" % (o, parts))
                    if list(er.backward_map(parts)) != [o]:
                        return _fail("equivalence form: backward_map(forward_map(%r)) = %r" % (o, list(er.backward_map(parts))))
                    if rev is not None:
                        up = rev.forward_map(parts[0])
                        if len(up) != 1 or up[0] != o:
                            return _fail("reverse of equivalence: forward_map(%r) = %r, expected (%r,)" % (parts[0], up, o))
                        if list(rev.backward_map(up)) != [parts[0]]:
                            return _fail("reverse of equivalence: backward_map(forward_map(.)) differs")
    return True


class Interrupted(Exception):
    """what the fault-injecting provider raises (stands for Ctrl-C, RecursionError, an error inside a strategy map)"""


def run_retry(shape, t, f):
    """(d) A generation call on the rule is interrupted by an exception raised from a child's provider - the position of
    the fault is the solver variable f, compared with the running number of provider calls - and the same rule object is
    then asked again: what it generates must still be exactly the reference objects (nothing half-filled may stay cached).
    If the fault position lies beyond the calls of the first request the run is an ordinary audit."""
    kids = [c09.mk_class(i + 1, ch) for i, ch in enumerate(shape["children"])]
    live = [i for i, ch in enumerate(shape["children"]) if not ch.get("empty")]
    if shape["kind"] == "product":
        pmin = sum(c.m for c in kids)
    else:
        pmin = min(kids[i].m for i in live)
    parent = K(0, pmin, False, shape["parent"]["params"])
    strat = (Prod if shape["kind"] == "product" else Union)(kids, shape["maps"])
    tabs = c09.tables_from(shape, t)
    otabs = [objs_from_counts(tb, i) for i, tb in enumerate(tabs)]
    pobjs = (product_objects if shape["kind"] == "product" else union_objects)(shape, otabs)
    N = c09.max_size(shape) + 1
    rule = strat(parent)
    state = {"calls": 0, "armed": True}

    def faulty(prov):
        def g(n):
            if state["armed"]:
                k = state["calls"]
                state["calls"] = k + 1
                if k == f:
                    state["armed"] = False
                    raise Interrupted()
            return prov(n)
        return g

    rule.subobjects = tuple(faulty(oprovider(o)) for o in otabs)
    rule.subterms = tuple(cprovider(o) for o in otabs)
    try:
        rule.get_objects(N)
    except Interrupted:
        pass
    state["armed"] = False
    return audit_rule(rule, [oprovider(o) for o in otabs], [cprovider(o) for o in otabs], pobjs, N, "forward rule asked again after an interrupted generation call (fault at provider call %r)" % (f,))


def run_path(shape, t):
    classes = shape["classes"]
    ks = [K(10 + i, shape["min"], False, [p for p, _ in c["params"]]) for i, c in enumerate(classes)]
    # the same objects in every class of the chain (the bijections are identities), filed under each class's statistics
    master = []
    for (n, vals), cnt in zip(c09.master_keys(shape), t):
        j = 0
        while j < cnt:
            master.append((n, vals, j))
            j += 1
    otabs = []
    for c in classes:
        ot = {}
        for (n, vals, j) in master:
            pv = tuple(0 if b < 0 else vals[b] for _, b in c["params"])
            ot.setdefault(n, {}).setdefault(pv, []).append(("m", n, vals, j))
        otabs.append(ot)
    empties = 0
    rules = []
    for s, st in enumerate(shape["steps"]):
        upper, lower = ks[s], ks[s + 1]
        par, chd = (upper, lower) if st["dir"] == "fwd" else (lower, upper)
        kids, maps = [], []
        for pos in range(st["arity"]):
            if pos == st["pos"]:
                kids.append(chd)
                maps.append(st["map"])
            else:
                empties += 1
                kids.append(K(100 + empties, 0, False, st.get("empty_params", []), None, True))
                maps.append(st.get("empty_map", {}))
        u = Union(kids, maps)
        u.where = (lambda p: (lambda o: p))(st["pos"])
        rule = u(par)
        if st["dir"] == "fwd":
            rules.append(rule.to_equivalence_rule())
        elif st.get("order", 0) == 0:
            rules.append(rule.to_equivalence_rule().to_reverse_rule(0))
        else:
            rules.append(rule.to_reverse_rule(st["pos"]).to_equivalence_rule())
    N = shape["min"] + shape["W"]
    path = EquivalencePathRule(rules)
    if not audit_rule(path, [oprovider(otabs[-1])], [cprovider(otabs[-1])], otabs[0], N, "equivalence path"):
        return False
    for (n, vals, j) in master:
        o = ("m", n, vals, j)
        parts = path.forward_map(o)
        if len(parts) != 1 or parts[0] != o:
            return _fail("equivalence path: forward_map(%r) = %r" % (o, parts))
        if list(path.backward_map(parts)) != [o]:
            return _fail("equivalence path: backward_map(forward_map(%r)) = %r" % (o, list(path.backward_map(parts))))
        for s, r in enumerate(rules):
            up = r.forward_map(o)
            if len(up) != 1 or up[0] != o or list(r.backward_map(up)) != [o]:
                return _fail("step %d (%s): maps do not round-trip %r: %r" % (s, shape["steps"][s]["dir"], o, up))
    return True


# ------------------------------------------------------------------ verification rules: any order of requests
from comb_spec_searcher.strategies.rule import VerificationRule  # noqa: E402
from comb_spec_searcher.strategies.strategy import VerificationStrategy  # noqa: E402


class TableVerification(VerificationStrategy):
    """Verifies the stub class and answers from a fixed table (the class has objects of several sizes)."""

    TABLE = {0: [], 1: ["a"], 2: ["bb", "cc"], 3: ["ddd"], 4: []}

    def verified(self, c):
        return True

    def formal_step(self):
        return "table"

    def get_terms(self, c, n):
        return Counter({(): len(self.TABLE.get(n, []))}) if self.TABLE.get(n) else Counter()

    def get_objects(self, c, n):
        d = defaultdict(list)
        if self.TABLE.get(n):
            d[()] = list(self.TABLE[n])
        return d

    @classmethod
    def from_dict(cls, d):
        return cls()


def check_ver(s0: int, s1: int, s2: int) -> bool:
    """
    pre: 0 <= s0 <= 4 and 0 <= s1 <= 4 and 0 <= s2 <= 4
    post: _
    """
    rule = TableVerification()(K(0, 1))
    for s in (s0, s1, s2):
        n = core.pick(s, 0, 4)
        objs = list(rule.generate_objects_of_size(n))
        if sorted(objs) != sorted(TableVerification.TABLE[n]):
            return core.final(_fail("verification rule asked sizes %r: size %d gives %r" % ((s0, s1, s2), n, objs)))
        if rule.count_objects_of_size(n) != len(TableVerification.TABLE[n]):
            return core.final(_fail("verification rule: count of size %d wrong" % n))
    return core.final(True)


# ------------------------------------------------------------------ (c) whole specifications on REG
import harness.e2e as e2e  # noqa: E402
import universes.reg as R  # noqa: E402
from harness.e2e import Bad  # noqa: E402


def assert_objects(ctx):
    spec = ctx.spec
    if spec is None:
        return
    for n in range(6):
        for params in ctx.start.possible_parameters(n):
            key = tuple(params[q] for q in ctx.start.extra_parameters)
            if len(set(key)) > 1:
                continue
            try:
                objs = list(spec.generate_objects_of_size(n, **params))
            except NotImplementedError:
                core.observe("specifications that decline object generation (complement/quotient rules)")
                return
            truth = e2e.truth_objects(ctx, n, key)
            if len(set(objs)) != len(objs):
                raise Bad("size %d %r: an object is generated twice: %r" % (n, params, sorted(objs)))
            if sorted(map(str, objs)) != sorted(truth):
                raise Bad("size %d %r: generated %r, the objects are %r" % (n, params, sorted(map(str, objs)), sorted(truth)))
            if len(objs) != spec.count_objects_of_size(n, **params):
                raise Bad("size %d %r: %d objects generated, the specification counts %d" % (n, params, len(objs), spec.count_objects_of_size(n, **params)))
    core.observe("specifications whose objects were generated")


ASSERT = assert_objects
PREPARE = None

# >>> e2e wrappers
# ---- end-to-end wrappers (same text in every module that uses harness/e2e.py; ASSERT / PREPARE are module globals)
def check_opt(t: int) -> bool:
    """
    pre: e2e.tin(t)
    post: _
    """
    return core.final(e2e.body_opt(t, ASSERT, PREPARE))


def check_sched(t: int, j: int) -> bool:
    """
    pre: e2e.tin(t) and 0 <= j <= e2e.NJ
    post: _
    """
    return core.final(e2e.body_sched(t, j, ASSERT, PREPARE))


def check_sched2(t: int, j0: int, j1: int) -> bool:
    """
    pre: e2e.tin(t) and 0 <= j0 < j1 <= e2e.NJ
    post: _
    """
    return core.final(e2e.body_sched2(t, j0, j1, ASSERT, PREPARE))


def check_rng(t: int, d0: int, d1: int, d2: int) -> bool:
    """
    pre: e2e.tin(t) and 0 <= d0 <= 2 and 0 <= d1 <= 2 and 0 <= d2 <= 2
    post: _
    """
    return core.final(e2e.body_rng(t, (d0, d1, d2), ASSERT, PREPARE))
# <<< e2e wrappers


def _bounds(t) -> bool:
    for i in range(LEN):
        if not (LO[i] <= t[i] <= B):
            return False
    return True


def check(t: List[int]) -> bool:
    """
    pre: _bounds(t)
    post: _
    """
    shape = core.SHAPE
    if shape["kind"] == "path":
        return core.final(run_path(shape, t))
    return core.final(run_config(shape, t))


NF = 12


def check_retry(t: List[int], f: int) -> bool:
    """
    pre: _bounds(t) and 0 <= f < NF
    post: _
    """
    return core.final(run_retry(core.SHAPE, t, f))


def groups(tier):
    """Every count forks (B+1) ways (it is the length of an object list), so a configuration is shrunk - fewer sizes per
    class, then counts in [0,1] - until (B+1)^entries fits the budget.  What ran is listed in the evidence."""
    budget = 400 if tier == "quick" else 2500
    gs = [{"name": "verification-rule-any-request-order", "fn": "check_ver", "shape": {"kind": "ver", "B": 2},
           "cond_timeout": 600.0, "path_timeout": 60.0, "weight": 125}]
    for c in c09.catalogue("quick"):
        c = dict(c)
        if c["kind"] != "path":
            forms = [f for f in c["forms"] if f in ("fwd", "eq", "eqrev")]
            if not forms:
                continue
            c["forms"] = forms
        W0 = min(c["W"], 2)
        chosen = []
        for W, Bv in ((W0, 2), (1, 2), (W0, 1), (1, 1)):
            c["W"], c["B"] = W, Bv
            c09.on_shape(c)
            if (Bv + 1) ** c09.LEN <= budget:
                chosen.append((W, Bv, c09.LEN))
                # thorough: when the full setting does not fit, run both reduced settings (fewer sizes / smaller counts)
                if tier == "quick" or (W, Bv) in ((W0, 2), (W0, 1), (1, 1)):
                    break
        for W, Bv, ln in chosen:
            d = dict(c)
            d["W"], d["B"] = W, Bv
            gs.append({"name": "%s-W%dB%d" % (c["name"], W, Bv), "fn": "check", "shape": d,
                       "cond_timeout": 900.0 if tier == "quick" else 2400.0, "path_timeout": 120.0, "weight": (Bv + 1) ** ln})
    # (d) interrupted generation call, then the same rule asked again: the plain (forward) configurations, counts in [0,1]
    nretry = 0
    for c in c09.catalogue("quick"):
        c = dict(c)
        if c["kind"] == "path" or "fwd" not in c["forms"]:
            continue
        c["forms"] = ["fwd"]
        c["W"], c["B"] = 1, 1
        c09.on_shape(c)
        if 2 ** c09.LEN * NF <= (200 if tier == "quick" else 400):
            nretry += 1
            gs.append({"name": "retry-%s-W1B1" % c["name"], "fn": "check_retry", "shape": c,
                       "cond_timeout": 900.0 if tier == "quick" else 2400.0, "path_timeout": 120.0, "weight": 2 ** c09.LEN * NF})
    # (c) whole specifications
    opts = ["plain", "inferral", "symmetry", "factory2", "finite", "k", "kk", "ku", "two"]
    if tier == "thorough":
        opts += ["two-k", "k-inferral", "ku-factory", "finite-mixed", "inferral-symmetry"]
    gs += e2e.std_groups(tier, opts=opts, sched=False, rng=True, S3=True)
    return gs


def selftest(tier):
    return e2e.selftest_universe(tier)


def meta(tier):
    m = {
        "functions": [Rule._ensure_level_objects, Rule.get_objects, Rule.backward_map, Rule.forward_map, CartesianProduct.get_sub_objects,
                      DisjointUnion.get_sub_objects, CartesianProduct.params_value_pairs_combinations, compositions,
                      EquivalenceRule.forward_map, EquivalenceRule.backward_map, ReverseRule.forward_map, ReverseRule.backward_map,
                      EquivalencePathRule.forward_map, EquivalencePathRule.backward_map, EquivalencePathRule.constructor.fget],
        "bounds": "configuration catalogue of C09 restricted to the forms with object maps (plain, equivalence with the non-empty child in "
                  "every position, reverse of equivalence, equivalence paths of 2-3 steps incl. reverse steps); number of objects per "
                  "(child, size, statistic value) symbolic in [0,%d]; W<=2..3 sizes per class" % (2 if tier == "quick" else 3),
        "outside": ["NonBijectiveRule (none in these universes)", "complement/quotient forms (the library declines object generation there)"],
        "stubs": ["stub classes/strategies; objects are tagged tuples; Union.forward_map locates an object by its tag",
                  "(d) providers that raise once at the f-th call (stands for any exception interrupting a generation call)"],
        "assumptions": ["reference object semantics of a genuine union/product (union_objects, product_objects)"],
    }
    m["bounds"] = str(m.get("bounds", "")) + " || end-to-end groups of this run: " + e2e.describe_groups(groups(tier))
    return m
