from typing import Tuple, Dict, Optional, List
from comb_spec_searcher.rule_db.forest import TableMethod
from comb_spec_searcher.typing import ForestRuleKey, RuleBucket

INF = None

def lfp(rules, L, S):
    cap = L * S + 2
    f = [0] * L
    changed = True
    while changed:
        changed = False
        for (p, ch, sh) in rules:
            if f[p] >= cap:
                continue
            v = cap
            for c, s in zip(ch, sh):
                w = cap if f[c] >= cap else f[c] + s
                if w < v:
                    v = w
            if v > cap:
                v = cap
            if v > f[p]:
                f[p] = v
                changed = True
    return {i: (None if v >= cap else v) for i, v in enumerate(f) if v != 0}

def run(rules):
    tm = TableMethod()
    for (p, ch, sh) in rules:
        tm.add_rule_key(ForestRuleKey(p, ch, sh, RuleBucket.NORMAL))
    return tm.function

def check3(s0: int, s1: int, s2: int, s3: int) -> bool:
    """
    pre: -2 <= s0 <= 2 and -2 <= s1 <= 2 and -2 <= s2 <= 2 and -2 <= s3 <= 2
    post: _
    """
    rules = [(0, (1, 2), (s0, s1)), (1, (0,), (s2,)), (2, (), ()), (1,(2,),(s3,))]
    return run(rules) == lfp(rules, 3, 2)
