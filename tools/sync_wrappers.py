#!/venv/bin/python
"""Copies harness/_e2e_wrappers.txt into every harness module between the marker lines (CrossHair needs real source text)."""
import glob, os, re
V = os.path.dirname(os.path.dirname(os.path.abspath(__file__)))
txt = open(os.path.join(V, "harness", "_e2e_wrappers.txt")).read().strip("\n")
B, E = "# >>> e2e wrappers", "# <<< e2e wrappers"
for f in glob.glob(os.path.join(V, "harness", "c*.py")):
    s = open(f).read()
    if B not in s:
        continue
    a, b = s.index(B), s.index(E)
    s2 = s[:a] + B + "\n" + txt + "\n" + s[b:]
    if s2 != s:
        open(f, "w").write(s2)
        print("synced", os.path.basename(f))
