"""Prototype REG universe (design probe; native)."""
import itertools
from collections import Counter, defaultdict
from typing import Optional, Tuple
from comb_spec_searcher import (AtomStrategy, CartesianProductStrategy, CombinatorialClass, CombinatorialObject,
    CombinatorialSpecificationSearcher, DisjointUnionStrategy, StrategyPack)

class W(str, CombinatorialObject):
    def size(self): return str.__len__(self)

class Table:
    def __init__(self, delta, acc):
        self.delta = tuple(tuple(r) for r in delta); self.acc = tuple(bool(a) for a in acc); self.S = len(acc)
        live = set(q for q in range(self.S) if self.acc[q])
        ch = True
        while ch:
            ch = False
            for q in range(self.S):
                if q not in live and any(self.delta[q][x] in live for x in (0, 1)):
                    live.add(q); ch = True
        self.live = live
    def key(self): return (self.delta, self.acc)
    def accepts_from(self, q, w):
        for c in w: q = self.delta[q]['ab'.index(c)]
        return self.acc[q]

class Lang(CombinatorialClass):
    def __init__(self, table, q, prefix="", atom=False, stats=False):
        self.t = table; self.q = q; self.prefix = prefix; self.atom = atom; self.stats = stats
    @property
    def extra_parameters(self): return ("k",) if self.stats else ()
    def get_minimum_value(self, p): return self.prefix.count('a')
    def get_parameters(self, obj): return (obj.count('a'),) if self.stats else ()
    def possible_parameters(self, n):
        if not self.stats: yield {}; return
        for k in range(n + 1): yield {"k": k}
    def is_empty(self): return (not self.atom) and self.q not in self.t.live
    def is_atom(self): return self.atom
    def minimum_size_of_object(self):
        if self.atom: return len(self.prefix)
        # shortest accepted word from q
        seen = {self.q}; frontier = [self.q]; d = 0
        while frontier:
            if any(self.t.acc[x] for x in frontier): return len(self.prefix) + d
            nxt = []
            for x in frontier:
                for y in self.t.delta[x]:
                    if y not in seen: seen.add(y); nxt.append(y)
            frontier = nxt; d += 1
        return len(self.prefix)
    def objects_of_size(self, n, **params):
        if self.atom:
            if n == len(self.prefix): 
                if not params or params.get('k', self.prefix.count('a')) == self.prefix.count('a'): yield W(self.prefix)
            return
        m = n - len(self.prefix)
        if m < 0: return
        for w in itertools.product('ab', repeat=m):
            w = ''.join(w)
            if self.t.accepts_from(self.q, w):
                o = W(self.prefix + w)
                if not params or o.count('a') == params['k']: yield o
    def to_jsonable(self):
        d = super().to_jsonable(); d.update(delta=self.t.delta, acc=self.t.acc, q=self.q, prefix=self.prefix, atom=self.atom, stats=self.stats); return d
    @classmethod
    def from_dict(cls, d): return cls(Table(d['delta'], d['acc']), d['q'], d['prefix'], d['atom'], d['stats'])
    def _k(self): return (self.t.key(), self.q, self.prefix, self.atom, self.stats)
    def __eq__(self, o): return isinstance(o, Lang) and self._k() == o._k()
    def __hash__(self):
        h = 17 + self.q * 7 + (3 if self.atom else 0)
        for c in self.prefix: h = (h * 31 + ord(c)) % 1000003
        return h
    def __repr__(self): return f"Lang(q={self.q},pre={self.prefix!r},atom={self.atom})"
    __str__ = __repr__

class SplitFirst(DisjointUnionStrategy):
    def decomposition_function(self, c):
        if c.atom: return None
        ch = []
        if c.t.acc[c.q]: ch.append(Lang(c.t, c.q, c.prefix, True, c.stats))
        for i, x in enumerate('ab'): ch.append(Lang(c.t, c.t.delta[c.q][i], c.prefix + x, False, c.stats))
        return tuple(ch)
    def extra_parameters(self, c, children=None):
        if children is None: children = self.decomposition_function(c)
        return tuple({"k": "k"} if c.stats else {} for _ in children)
    def formal_step(self): return "split on first letter"
    def forward_map(self, c, obj, children=None):
        if children is None: children = self.decomposition_function(c)
        res = [None] * len(children)
        if len(obj) == len(c.prefix): res[0] = obj; return tuple(res)
        off = 1 if c.t.acc[c.q] else 0
        res[off + 'ab'.index(obj[len(c.prefix)])] = obj
        return tuple(res)
    @classmethod
    def from_dict(cls, d): return cls()
    def __repr__(self): return "SplitFirst()"
    def __str__(self): return "split"

class PeelPrefix(CartesianProductStrategy):
    def decomposition_function(self, c):
        if c.atom or not c.prefix or c.is_empty(): return None
        return (Lang(c.t, 0, c.prefix, True, c.stats), Lang(c.t, c.q, "", False, c.stats))
    def extra_parameters(self, c, children=None):
        if children is None: children = self.decomposition_function(c)
        return tuple({"k": "k"} if c.stats else {} for _ in children)
    def formal_step(self): return "peel prefix"
    def backward_map(self, c, objs, children=None): yield W(objs[0] + objs[1])
    def forward_map(self, c, obj, children=None): return (W(c.prefix), W(obj[len(c.prefix):]))
    @classmethod
    def from_dict(cls, d): return cls()
    def __repr__(self): return "PeelPrefix()"
    def __str__(self): return "peel"

def pack(iterative=False):
    return StrategyPack(initial_strats=[PeelPrefix()], inferral_strats=[], expansion_strats=[[SplitFirst()]], ver_strats=[AtomStrategy()], name="reg", iterative=iterative)

def tables(S):
    for delta in itertools.product(itertools.product(range(S), repeat=2), repeat=S):
        for acc in itertools.product((0, 1), repeat=S):
            yield Table(delta, acc)
