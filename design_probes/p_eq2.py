from p_eq import reach
from comb_spec_searcher.equiv_db import EquivalenceDB
L = 3
def check(a0: int, b0: int, a1: int, b1: int, a2: int, b2: int, v: int) -> bool:
    """
    pre: 0 <= a0 < 3 and 0 <= b0 < 3 and 0 <= a1 < 3 and 0 <= b1 < 3 and 0 <= a2 < 3 and 0 <= b2 < 3 and 0 <= v < 3
    post: _
    """
    db = EquivalenceDB()
    edges = []
    for a, b in ((a0, b0), (a1, b1), (a2, b2)):
        db.add_one_way_edge(a, b); edges.append((a, b))
    db.set_verified(v)
    db.connect_cycles()
    r = reach(edges, L)
    for i in range(L):
        for j in range(L):
            if db.equivalent(i, j) != (r[i][j] and r[j][i]):
                return False
            if r[i][j] and r[j][i]:
                p = db.find_path(i, j)
                if p[0] != i or p[-1] != j:
                    return False
                for x, y in zip(p, p[1:]):
                    if (x, y) not in edges:
                        return False
        if db.is_verified(i) != (r[i][v] and r[v][i]):
            return False
    return True
