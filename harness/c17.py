"""C17 - a search pickled or interrupted at any point resumes faithfully.

End-to-end, pattern D on REG.  The clock is the solver variable: auto_search(max_expansion_time=T) is run under the shared
clock with one late reading at a symbolic position j, so the time limit strikes after an arbitrary work packet (every
reading position of the run is one path).  At the interruption point the searcher is pickled and restored; original and
copy are both continued under identical fresh clocks; packet streams, universes and answers must coincide and the final
specification must satisfy C01/C02.  A second group pickles after m level-wise steps.
"""
import pickle

from comb_spec_searcher import CombinatorialSpecificationSearcher
from comb_spec_searcher.class_db import ClassDB
from comb_spec_searcher.exception import ExceededMaxtimeError, NoMoreClassesToExpandError, SpecificationNotFound
from comb_spec_searcher.rule_db.base import RuleDBBase
from comb_spec_searcher.rule_db.forest import RuleDBForest

import harness.c01 as c01
import harness.c02 as c02
import harness.e2e as e2e
import universes.reg as R
from harness.e2e import Bad, Ctx
from vlib import core
from vlib.core import NoTracing, pick
from vlib.shims import Clock, Tape, patched_env

LAST_FAILURE = None
LIMIT = 3000.0
PACKETS = []

_orig_expand = CombinatorialSpecificationSearcher._expand


def _logging_expand(self, comb_class, label, strategies, inferral):
    PACKETS.append((id(self), label, tuple(repr(s) for s in strategies), inferral))
    return _orig_expand(self, comb_class, label, strategies, inferral)


def universe_state(s):
    cdb = s.classdb
    classes = [cdb.get_class(l) for l in range(len(cdb.comb_class_list))]
    st = {"classes": classes, "empty": list(cdb.empty_list), "tried": sorted(s.tried_to_verify),
          "sym": sorted(s.symmetry_expanded), "inf": sorted(s.inferral_expanded)}
    db = s.ruledb
    if isinstance(db, RuleDBBase):
        st["rules"] = sorted(db)
        st["verified"] = [l for l in range(len(classes)) if db.is_verified(l)]
    else:
        st["rules"] = [(rk.parent, rk.children, rk.shifts, rk.bucket.name) for rk in db.table_method._rules]
        st["verified"] = [l for l in range(len(classes)) if db.is_verified(l)]
        st["function"] = db.table_method.function
    q = s.classqueue
    st["queue"] = (list(q.working), sorted(q.next_level.items()), [list(d) for d in q.curr_level], sorted(q.ignore), list(q.staging),
                   list(q.queue_sizes))
    return st


def make(shape, table):
    popts, stats, ev, smallest = e2e.OPTSETS[shape["opt"]]
    ctx = Ctx()
    ctx.table, ctx.stats, ctx.shape = table, stats, shape
    ctx.pack_opts = popts + (("stats:" + stats,) if stats else ())
    ctx.pack = R.mkpack(ctx.pack_opts)
    ctx.start = R.start_class(table, stats)
    ctx.error = None
    ctx.spec = None
    return ctx


def finish(searcher, clock_jumps=()):
    """Continue a searcher to the end: one time-limited call under a fresh clock with the given late readings (it may be
    interrupted again), then an unlimited call.  -> (spec or None, packets, number of further interruptions)"""
    del PACKETS[:]
    again = 0
    spec = None
    try:
        if clock_jumps:
            with patched_env(Clock(clock_jumps), Tape(())):
                try:
                    spec = searcher.auto_search(max_expansion_time=LIMIT)
                except ExceededMaxtimeError:
                    again = 1
        if spec is None:
            with patched_env(Clock(()), Tape(())):
                spec = searcher.auto_search()
    except SpecificationNotFound:
        spec = None
    return spec, [p[1:] for p in PACKETS], again


def same_answers(ctx, sa, sb, what):
    if (sa is None) != (sb is None):
        raise Bad("%s: one continuation found a specification, the other did not" % what)
    if sa is None:
        return
    if set(sa.rules_dict) != set(sb.rules_dict):
        raise Bad("%s: the two specifications have rules for different classes" % what)
    for c in sa.rules_dict:
        ra, rb = sa.rules_dict[c], sb.rules_dict[c]
        if type(ra) is not type(rb) or tuple(ra.children) != tuple(rb.children):
            raise Bad("%s: different rules for %r" % (what, c))
    for n in range(5):
        if sa.get_terms(n) != sb.get_terms(n):
            raise Bad("%s: counts differ at size %d" % (what, n))


def scenario_interrupt(shape, table, jumps):
    ctx = make(shape, table)
    CombinatorialSpecificationSearcher._expand = _logging_expand
    try:
        del PACKETS[:]
        clock = Clock(jumps[:1])
        interrupted = False
        spec = None
        with patched_env(clock, Tape(())):
            a = CombinatorialSpecificationSearcher(ctx.start, ctx.pack, ruledb=e2e.DBS[shape["db"]]())
            try:
                spec = a.auto_search(max_expansion_time=LIMIT)
            except ExceededMaxtimeError:
                interrupted = True
            except SpecificationNotFound:
                spec = None
        first_packets = [p[1:] for p in PACKETS]
        core.observe("runs")
        if interrupted:
            core.observe("runs interrupted by the time limit")
            if a.classqueue.staging:
                core.observe("interrupted with staged work packets")
            # stopped by the limit after an arbitrary packet: pickle here, then continue original and copy alike
            b = pickle.loads(pickle.dumps(a))
            if not (b == a):
                raise Bad("the unpickled searcher is not equal to the original (interrupted after %d packets)" % len(first_packets))
            if universe_state(a) != universe_state(b):
                raise Bad("universe of the unpickled searcher differs from the original")
            sa, pa, ia = finish(a, jumps[1:])
            sb, pb, ib = finish(b, jumps[1:])
            if ia:
                core.observe("runs interrupted twice")
            if pa != pb or ia != ib:
                raise Bad("original and unpickled copy go through different work: %r vs %r" % (pa[:6], pb[:6]))
            ua, ub = universe_state(a), universe_state(b)
            if ua != ub:
                diff = [k for k in ua if ua[k] != ub[k]]
                raise Bad("original and unpickled copy build different universes (differ in %r)" % (diff,))
            same_answers(ctx, sa, sb, "after resuming")
            allp = first_packets + pa
            flat = [(l, s) for (l, ss, inf) in allp for s in ss]
            if len(set(flat)) != len(flat):
                raise Bad("a (label, strategy) packet was applied twice across the interruption")
            spec = sa
        ctx.spec = spec
        if spec is None and "iterative" not in ctx.pack_opts:
            raise Bad("after the interruption the search ends without a specification although the universe contains one "
                      "(late readings %r, %d packets before the stop)" % (clock.late_at, len(first_packets)))
        if spec is not None:
            c01.assert_counts(ctx, spec, n_max=5)
            c02.assert_valid(ctx, spec)
            # a finished searcher also round-trips
            b = pickle.loads(pickle.dumps(a))
            if not (b == a):
                raise Bad("the unpickled searcher is not equal to the original (after the search finished)")
        return True
    finally:
        CombinatorialSpecificationSearcher._expand = _orig_expand


def scenario_levels(shape, table, m):
    """Pickle after m level-wise steps; continue both level-wise."""
    ctx = make(shape, table)
    CombinatorialSpecificationSearcher._expand = _logging_expand
    try:
        with patched_env(Clock(()), Tape(())):
            a = CombinatorialSpecificationSearcher(ctx.start, ctx.pack, ruledb=e2e.DBS[shape["db"]]())
            for _ in range(m):
                try:
                    a.do_level()
                except NoMoreClassesToExpandError:
                    break
            b = pickle.loads(pickle.dumps(a))
            if not (b == a):
                raise Bad("the unpickled searcher is not equal to the original (after %d levels)" % m)
            outs = []
            for s in (a, b):
                del PACKETS[:]
                for _ in range(3):
                    try:
                        s.do_level()
                    except NoMoreClassesToExpandError:
                        break
                try:
                    spec = s.get_specification(minimization_time_limit=1.5)
                except SpecificationNotFound:
                    spec = None
                outs.append((spec, [p[1:] for p in PACKETS], universe_state(s)))
        if outs[0][1] != outs[1][1]:
            raise Bad("level-wise: original and copy go through different work after %d levels" % m)
        if outs[0][2] != outs[1][2]:
            diff = [k for k in outs[0][2] if outs[0][2][k] != outs[1][2][k]]
            raise Bad("level-wise: original and copy build different universes (differ in %r)" % (diff,))
        same_answers(ctx, outs[0][0], outs[1][0], "level-wise")
        if outs[0][0] is not None:
            ctx.spec = outs[0][0]
            c01.assert_counts(ctx, outs[0][0], n_max=5)
        core.observe("level-wise pickles")
        return True
    finally:
        CombinatorialSpecificationSearcher._expand = _orig_expand


def _run(f, *a):
    global LAST_FAILURE
    try:
        return f(*a)
    except Bad as e:
        LAST_FAILURE = "%s | %r" % (e, a[:2])
        return False


def check_int1(t: int, j: int) -> bool:
    """
    pre: e2e.tin(t) and 0 <= j <= e2e.NJ
    post: _
    """
    shape = core.SHAPE
    lo, hi = shape["trange"]
    ti = pick(t, lo, hi - 1)
    with NoTracing():
        return core.final(_run(scenario_interrupt, shape, e2e.tables(shape["S"])[ti], (j,)))


def check_int2(t: int, j0: int, j1: int) -> bool:
    """
    pre: e2e.tin(t) and 0 <= j0 < j1 <= e2e.NJ
    post: _
    """
    shape = core.SHAPE
    lo, hi = shape["trange"]
    ti = pick(t, lo, hi - 1)
    with NoTracing():
        return core.final(_run(scenario_interrupt, shape, e2e.tables(shape["S"])[ti], (j0, j1)))


def check_lvl(t: int, m: int) -> bool:
    """
    pre: e2e.tin(t) and 0 <= m <= 3
    post: _
    """
    shape = core.SHAPE
    lo, hi = shape["trange"]
    ti = pick(t, lo, hi - 1)
    mi = pick(m, 0, 3)
    with NoTracing():
        core.tally((ti, mi))
        return core.final(_run(scenario_levels, shape, e2e.tables(shape["S"])[ti], mi))


def on_shape(shape):
    e2e.on_shape(shape)


def groups(tier):
    gs = []
    n2 = len(e2e.tables(2))
    opts = ["plain", "inferral", "finite"] if tier == "quick" else ["plain", "inferral", "finite", "symmetry", "factory2", "k", "finite-ev"]
    quick_combos = {("base", "plain"), ("base", "inferral"), ("forget", "inferral"), ("forest", "plain")}
    for db in ("base", "forget", "forest"):
        for opt in opts:
            for lo in range(0, n2, 16):
                if tier == "quick" and (db, opt) not in quick_combos:
                    continue
                gs.append({"name": "interrupt-%s-%s-t%d" % (db, opt, lo), "fn": "check_int1",
                           "shape": {"db": db, "opt": opt, "S": 2, "trange": [lo, min(n2, lo + 16)]},
                           "cond_timeout": 1800.0, "path_timeout": 120.0, "weight": 900})
            gs.append({"name": "levels-%s-%s" % (db, opt), "fn": "check_lvl", "shape": {"db": db, "opt": opt, "S": 2, "trange": [0, n2]},
                       "cond_timeout": 1800.0, "path_timeout": 120.0, "weight": 4 * n2, "expect_space": 4 * n2})
    if tier == "thorough":
        for db in ("base", "forest"):
            for lo in range(0, n2, 16):  # tables 0-3, 16-19, 32-35, 48-51: two interruptions square the number of schedules
                gs.append({"name": "interrupt2-%s-plain-t%d" % (db, lo), "fn": "check_int2",
                           "shape": {"db": db, "opt": "plain", "S": 2, "trange": [lo, min(n2, lo + 4)]},
                           "cond_timeout": 3000.0, "path_timeout": 120.0, "weight": 4000})
    return gs


def selftest(tier):
    return e2e.selftest_universe(tier)


def meta(tier):
    from comb_spec_searcher import CombinatorialSpecificationSearcher as CSS
    from comb_spec_searcher.class_queue import DefaultQueue
    from comb_spec_searcher.equiv_db import EquivalenceDB
    m = dict(e2e.COMMON_META)
    m.update({
        "functions": [CSS.auto_search, CSS._auto_search_rules, CSS._expand_classes_for, CSS.do_level, CSS.__eq__, DefaultQueue.__eq__,
                      ClassDB.__eq__, RuleDBBase.__eq__, EquivalenceDB.__eq__, RuleDBBase.pruned_dict.fget],
        "bounds": {"quick": "64 two-state tables x 4 (database, pack) combinations (default: plain/inferral, memory-saving: inferral, forest: "
                            "plain); one late clock reading at every reading position of the run "
                            "(time limit strikes after every reachable work packet); pickle at the interruption and after 0..3 levels",
                   "thorough": "7 packs, plus two interruptions (two late readings) for the plain pack on 16 of the tables (default and forest database)"}[tier],
    })
    m["outside"] = m["outside"] + ["crashes inside a work packet (the property speaks of the time limit and of pickling between packets)"]
    m["stubs"] = m["stubs"] + ["CombinatorialSpecificationSearcher._expand is wrapped (class level) to log the work-packet stream"]
    return m
