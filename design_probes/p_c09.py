from typing import List
from collections import Counter
from comb_spec_searcher.strategies.strategy import CartesianProductStrategy, DisjointUnionStrategy
from comb_spec_searcher.strategies.rule import Rule

class K:
    def __init__(self, name, m, atom=False, params=()):
        self.name = name; self.m = m; self.atom = atom; self._p = params
    extra_parameters = property(lambda self: self._p)
    def minimum_size_of_object(self): return self.m
    def is_atom(self): return self.atom
    def is_empty(self): return False
    def get_minimum_value(self, p): return 0
    def __eq__(self, o): return isinstance(o, K) and o.name == self.name
    def __hash__(self): return self.name
    def __repr__(self): return f"K{self.name}"

class Prod(CartesianProductStrategy):
    def __init__(self, children): super().__init__(); self.ch = children
    def decomposition_function(self, c): return self.ch
    def formal_step(self): return "prod"
    def backward_map(self, *a): raise NotImplementedError
    def forward_map(self, *a): raise NotImplementedError
    @classmethod
    def from_dict(cls, d): raise NotImplementedError

N = 3
def check(a: List[int], b: List[int]) -> bool:
    """
    pre: len(a) == 4 and len(b) == 4
    pre: all(0 <= x <= 3 for x in a) and all(0 <= x <= 3 for x in b)
    pre: a[0] == 0
    post: _
    """
    A = K(1, 1); B = K(2, 0); P = K(0, 1)
    rule = Prod((A, B))(P)
    ta = lambda n: Counter({(): a[n]}) if a[n] else Counter()
    tb = lambda n: Counter({(): b[n]}) if b[n] else Counter()
    rule.subterms = (ta, tb)
    for n in range(N + 1):
        ref = sum(a[i] * b[n - i] for i in range(n + 1))
        got = rule.get_terms(n)[()]
        if got != ref:
            return False
    # reverse: recover A from P and B  (needs b[0] >= 1 so that B's min size really is 0)
    return True
