#!/venv/bin/python
"""Regenerates /verif/MANIFEST.json from the table below (keeps it schema-valid)."""
import json
import os

VERIF = os.path.dirname(os.path.dirname(os.path.abspath(__file__)))
PY = "/venv/bin/python"

# id -> (level text, level note, technique, design ref)
CLAIMED = {}
NOT_YET = {}


def claim(pid, text, note, technique, ref):
    CLAIMED[pid] = (text, note, technique, ref)


exec(open(os.path.join(VERIF, "tools", "manifest_table.py")).read())

props = [json.loads(l) for l in open(os.path.join(VERIF, "properties.jsonl"))]
checks = []
na = []
for p in props:
    pid = p["id"]
    if pid in CLAIMED:
        text, note, technique, ref = CLAIMED[pid]
        checks.append({
            "property_id": pid,
            "quick_cmd": "%s run_check.py %s --tier quick" % (PY, pid),
            "thorough_cmd": "%s run_check.py %s --tier thorough" % (PY, pid),
            "evidence_file": "evidence/%s.json" % pid,
            "replay_cmd_template": "%s run_check.py %s --replay {path}" % (PY, pid),
            "engine": "crosshair+z3",
            "level_claimed": {"category": "model_checking", "text": text, "design_ref": ref},
            "level_note": note,
            "technique": technique,
        })
    else:
        na.append({"property_id": pid, "reason": NOT_YET.get(pid, "check not built yet in this round; planned design in DESIGN.md section 2")})

manifest = {
    "version": 1,
    "setup_cmd": "%s vlib/bootstrap.py" % PY,
    "hooks": {
        "guard": "COMB_SPEC_SEARCHER_VERIF",
        "enable": "no source hooks: the harnesses patch module attributes (time, random) of the imported repository modules at run time",
        "baseline_off_cmd": "cd /repo && /venv/bin/python -m pytest -ra -q -p no:cacheprovider --timeout=900 --continue-on-collection-errors",
        "source_commits": [],
        "add_only": True,
    },
    "engines": [{
        "name": "crosshair+z3",
        "path": "vlib/driver.py",
        "serves_properties": sorted(CLAIMED),
        "kind_free_text": "symbolic execution of the real Python functions of /repo with crosshair-tool 0.0.110 (z3 5.1.0): "
                          "per query group a harness with a PEP-316 contract is explored path by path until z3 proves no "
                          "further feasible path exists inside the precondition; models are replayed natively before being "
                          "reported; plus direct z3 validity queries on the real arithmetic evaluated on z3 terms",
    }],
    "checks": checks,
    "not_applicable": na,
    "notes": "Exit codes of every check: 0 held within the stated bound, 1 VIOLATION (model replayed natively on the real code), "
             "2 inconclusive (timeout / unknown; never reported as success), 3 harness error. See DESIGN.md.",
}
with open(os.path.join(VERIF, "MANIFEST.json"), "w") as f:
    json.dump(manifest, f, indent=1)
print("claimed", sorted(CLAIMED), "not claimed", [x["property_id"] for x in na])
