#!/verif/.venv/bin/python
"""Native sweep listing every failing input of the C13 scenario (used once to write known_findings.json by hand)."""
import json, logging, sys
sys.path.insert(0, "/verif")
import comb_spec_searcher, logzero  # noqa
logzero.loglevel(logging.CRITICAL)
import harness.c13 as h
import harness.e2e as e2e
from vlib import core

out = {}
for g in h.groups(sys.argv[1] if len(sys.argv) > 1 else "quick"):
    sh = g["shape"]
    core.set_shape(sh)
    for i in range(sh["range1"][0], sh["range1"][1]):
        for j in range(sh["n2"]):
            h.LAST_FAILURE = None
            try:
                ok = h.scenario(sh, i, j)
            except e2e.Bad as e:
                kind = str(e).split(" | ")[0][:60]
                key = "%s/%s/%s" % (sh["universe"], sh["finder"], sh.get("opt", "-"))
                out.setdefault(key, {}).setdefault(kind, []).append([i, j])
print(json.dumps({k: {kk: len(vv) for kk, vv in v.items()} for k, v in out.items()}, indent=1))
json.dump(out, open("/tmp/c13_sweep.json", "w"))
