"""Small runtime shared by all harness modules.

A harness function is an ordinary Python function with a PEP-316 contract
(``pre:`` bounds on its solver variables, ``post: _``) that drives the *real*
code of /repo and returns whether the property held.  The same function is run

* under CrossHair (the deciding step: every feasible path inside the
  precondition is closed by z3, or a model is produced),
* natively, to replay a model that CrossHair produced, before anything is
  reported as a violation.

``SHAPE`` is the concrete part of a query group (catalogue entry); it is set by
the driver before the harness function is analysed or replayed.
"""
from typing import Any, Dict, Hashable, List, Optional, Tuple

SHAPE: Any = None
TWIN: bool = False          # reachability twin: the final assertion point answers False
TALLY: set = set()          # pattern D: concrete decision vectors the body was run with
OBSERVED: Dict[str, int] = {}  # what the explored runs looked like (counts per kind), reported in the evidence
SKIPPED: List[Tuple[str, Any]] = []   # decision vectors skipped because of an *open* known finding
OPEN_FINDINGS: List[Dict[str, Any]] = []   # filled by the driver from known_findings.json

try:  # the tracer only exists inside the overlay venv
    from crosshair.tracers import NoTracing, ResumedTracing, is_tracing  # noqa: F401
except Exception:  # pragma: no cover - native import without crosshair
    import contextlib

    NoTracing = contextlib.nullcontext  # type: ignore
    ResumedTracing = contextlib.nullcontext  # type: ignore

    def is_tracing():  # type: ignore
        return False


def set_shape(shape: Any) -> None:
    global SHAPE
    SHAPE = shape


def final(ok: Any) -> Any:
    """The final assertion point of a harness."""
    if TWIN:
        return False
    return ok


def pick(v: int, lo: int, hi: int) -> int:
    """Fork a solver variable over the integers lo..hi (inclusive) and return a builtin int.

    Must be called with tracing on.  The precondition of the harness restricts v
    to lo..hi, so the trailing return is unreachable for admissible inputs."""
    for k in range(lo, hi):
        if v == k:
            return k
    return hi


def pick_bool(v: Any) -> bool:
    if v:
        return True
    return False


def tally(vec: Hashable) -> None:
    TALLY.add(vec)


def observe(kind: str, n: int = 1) -> None:
    OBSERVED[kind] = OBSERVED.get(kind, 0) + n


def known(fn_name: str, env: Dict[str, Any]) -> Optional[str]:
    """Return the id of an *open* known finding whose signature matches this concrete input."""
    for f in OPEN_FINDINGS:
        if f.get("status") != "open" or f.get("fn") != fn_name:
            continue
        try:
            if eval(f["match"], {"SHAPE": SHAPE}, dict(env)):  # noqa: S307 - our own committed file
                SKIPPED.append((f["id"], repr(env)))
                return f["id"]
        except Exception:
            continue
    return None
