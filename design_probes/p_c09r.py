from typing import List
from collections import Counter
from p_c09 import K, Prod
N = 3
def check(a: List[int]) -> bool:
    """
    pre: len(a) == 4 and a[0] == 0 and 1 <= a[1] <= 3 and all(0 <= x <= 3 for x in a)
    post: _
    """
    b = [1, 2, 0, 1]
    A = K(1, 1); B = K(2, 0); P = K(0, 1)
    rule = Prod((A, B))(P)
    p = [sum(a[i] * b[n - i] for i in range(n + 1)) if n <= N else 0 for n in range(N + 2)]
    rr = rule.to_reverse_rule(0)      # A = P / B
    tp = lambda n: Counter({(): p[n]}) if (n <= N and p[n]) else Counter()
    tb = lambda n: Counter({(): b[n]}) if (n <= N and b[n]) else Counter()
    rr.subterms = (tp, tb)
    for n in range(N + 1):
        got = rr.get_terms(n)[()]
        if got != a[n]:
            return False
    return True
