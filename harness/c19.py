"""C19 - expanding verified classes preserves the enumeration and finishes the job.

End-to-end, pattern D on REG with the FiniteLang verification strategy (which offers a pack).  Solver variable: the
DFA table; group = rule database that produced the original x pack.  On every path the real searcher finds a
specification, expand_verified() is called, and the result must be a specification for the same start class that
counts like brute force (C01), passes the structural oracle (C02), contains no verified class that still offers a pack,
shares no rule object with the original, and leaves the original unchanged and usable.
"""
from comb_spec_searcher.exception import InvalidOperationError
from comb_spec_searcher.strategies.rule import EquivalencePathRule, VerificationRule

import harness.c01 as c01
import harness.c02 as c02
import harness.e2e as e2e
import universes.reg as R
from harness.e2e import Bad
from vlib import core

LAST_FAILURE = None


def rule_objects(spec):
    ids = set()
    for r in spec.rules_dict.values():
        ids.add(id(r))
        if isinstance(r, EquivalencePathRule):
            for x in r.rules:
                ids.add(id(x))
    return ids


def offers_pack(rule):
    if not isinstance(rule, VerificationRule):
        return False
    try:
        rule.strategy.pack(rule.comb_class)
    except InvalidOperationError:
        return False
    return True


def assert_expand(ctx):
    spec = ctx.spec
    if spec is None:
        return
    n_ver = sum(1 for r in spec.rules_dict.values() if offers_pack(r))
    before_counts = [dict(spec.get_terms(n)) for n in range(6)]
    before_rules = {c: (type(r).__name__, tuple(r.children), repr(r.strategy)) for c, r in spec.rules_dict.items()}
    before_ids = rule_objects(spec)
    new = spec.expand_verified()
    core.observe("specifications")
    if n_ver:
        core.observe("specifications with a verified class offering a pack")
        if any(isinstance(r, EquivalencePathRule) for r in spec.rules_dict.values()):
            core.observe("specifications with a verified class offering a pack and an equivalence path")
    if new.root != ctx.start:
        raise Bad("the expanded specification is for %r" % (new.root,))
    c01.assert_counts(ctx, new, n_max=6)
    # the pack of the expanded specification: the original pack plus what the verification strategy's pack brings (same strategies here)
    c02.assert_valid(ctx, new)
    left = [c for c, r in new.rules_dict.items() if offers_pack(r)]
    if left:
        raise Bad("verified classes offering a pack are left after expand_verified: %r" % (left,))
    if n_ver and (rule_objects(new) & before_ids):
        raise Bad("the expanded specification shares rule objects with the original")
    if n_ver == 0 and new is not spec:
        pass  # nothing to expand: any equal result is fine
    after_rules = {c: (type(r).__name__, tuple(r.children), repr(r.strategy)) for c, r in spec.rules_dict.items()}
    if after_rules != before_rules:
        raise Bad("the original specification was changed by expand_verified")
    after_counts = [dict(spec.get_terms(n)) for n in range(6)]
    if after_counts != before_counts:
        raise Bad("the original specification counts differently after expand_verified")
    c01.assert_counts(ctx, spec, n_max=6)
    if any(type(r).__name__ == "ReverseRule" for r in new.rules_dict.values()):
        core.observe("expanded specifications containing a reverse rule")


ASSERT = assert_expand
PREPARE = None

# >>> e2e wrappers
# ---- end-to-end wrappers (same text in every module that uses harness/e2e.py; ASSERT / PREPARE are module globals)
def check_opt(t: int) -> bool:
    """
    pre: e2e.tin(t)
    post: _
    """
    return core.final(e2e.body_opt(t, ASSERT, PREPARE))


def check_sched(t: int, j: int) -> bool:
    """
    pre: e2e.tin(t) and 0 <= j <= e2e.NJ
    post: _
    """
    return core.final(e2e.body_sched(t, j, ASSERT, PREPARE))


def check_sched2(t: int, j0: int, j1: int) -> bool:
    """
    pre: e2e.tin(t) and 0 <= j0 < j1 <= e2e.NJ
    post: _
    """
    return core.final(e2e.body_sched2(t, j0, j1, ASSERT, PREPARE))


def check_rng(t: int, d0: int, d1: int, d2: int) -> bool:
    """
    pre: e2e.tin(t) and 0 <= d0 <= 2 and 0 <= d1 <= 2 and 0 <= d2 <= 2
    post: _
    """
    return core.final(e2e.body_rng(t, (d0, d1, d2), ASSERT, PREPARE))
# <<< e2e wrappers


def on_shape(shape):
    e2e.on_shape(shape)


def groups(tier):
    gs = []
    opts = ["finite", "plain", "inferral-factory-finite"] if tier == "quick" else ["finite", "plain", "inferral-factory-finite", "finite-ev", "two-finite", "k-finite"]
    n2 = len(e2e.tables(2))
    for db in ("base", "forget", "forest"):
        for opt in opts:
            gs.append({"name": "S2-%s-%s" % (db, opt), "fn": "check_opt", "shape": {"db": db, "opt": opt, "S": 2},
                       "cond_timeout": 1800.0, "path_timeout": 120.0, "expect_space": n2, "weight": n2})
    # four-state tables with finite sub-languages (the three-state catalogue has only 4 tables with a finite non-atomic state)
    nf = len(e2e.tables("F4"))
    dbsf = ("base", "forget", "forest")
    # "symmetry-finite": the specifications contain equivalence rules / paths next to the verified classes
    optsf = ("finite",) if tier == "quick" else ("finite", "symmetry-finite", "two-finite", "finite-ev", "inferral-factory-finite")
    for db in dbsf:
        for opt in optsf:
            for lo in range(0, nf, 128):
                gs.append({"name": "F4-%s-%s-t%d" % (db, opt, lo), "fn": "check_opt", "shape": {"db": db, "opt": opt, "S": "F4", "trange": [lo, lo + 128]},
                           "cond_timeout": 2400.0, "path_timeout": 120.0, "expect_space": 128, "weight": 128 * 3})
    # five-state tables: verification nests (the pack offered for a class verifies deeper classes); "finite-mixed": the same
    # strategy offers a pack for some classes and declines for others
    n5 = len(e2e.tables("F5"))
    for db in dbsf:
        for opt in ("finite", "finite-mixed"):
            for lo in range(0, n5, 48):
                if tier == "quick" and (db == "forget" or (db == "forest" and (opt != "finite" or (lo // 192) % 2 == 1))):
                    continue
                gs.append({"name": "F5-%s-%s-t%d" % (db, opt, lo), "fn": "check_opt", "shape": {"db": db, "opt": opt, "S": "F5", "trange": [lo, lo + 48]},
                           "cond_timeout": 2400.0, "path_timeout": 120.0, "expect_space": 48, "weight": 48 * (20 if lo >= 576 else 5)})
    # "F5e": state 4 is a copy of the start state (merged by the inferral strategy), so the specification contains an equivalence
    # path next to pack-offering verified classes: expand_comb_class has to copy the rules *inside* the path as well
    ne = len(e2e.tables("F5e"))
    for db in dbsf:
        for opt in (("inferral-finite",) if tier == "quick" else ("inferral-finite", "inferral-two-finite")):
            gs.append({"name": "F5e-%s-%s" % (db, opt), "fn": "check_opt", "shape": {"db": db, "opt": opt, "S": "F5e"},
                       "cond_timeout": 2400.0, "path_timeout": 120.0, "expect_space": ne, "weight": ne * 3})
    if tier == "thorough":
        n3 = len(e2e.tables(3))
        for db in dbsf:
            for lo in range(0, n3, 300):
                hi = min(n3, lo + 300)
                gs.append({"name": "S3-%s-finite-t%d" % (db, lo), "fn": "check_opt", "shape": {"db": db, "opt": "finite", "S": 3, "trange": [lo, hi]},
                           "cond_timeout": 2400.0, "path_timeout": 120.0, "expect_space": hi - lo, "weight": (hi - lo) * 2})
    return gs


def selftest(tier):
    return e2e.selftest_universe(tier)


def meta(tier):
    from comb_spec_searcher import CombinatorialSpecification as Spec
    from comb_spec_searcher.rule_db.forest import ForestRuleExtractor
    m = dict(e2e.COMMON_META)
    m.update({
        "functions": [Spec.expand_verified, Spec.unexpanded_verified_classes, Spec.expand_comb_class, ForestRuleExtractor.rules,
                      ForestRuleExtractor._find_rule],
        "bounds": {"quick": "64 two-state tables x 3 databases x 3 packs with the pack-offering FiniteLang verification; 512 four-state tables whose "
                            "states 1,2 accept finite languages x 3 databases; 128 five-state tables with a copy of the start state (equivalence path next to "
                            "the pack-offering verified classes) x 3 databases with the inferral strategy",
                   "thorough": "6 packs on the two-state tables, 4 packs on the four-state tables, all 2934 three-state tables x 3 databases"}[tier],
    })
    m["bounds"] = str(m.get("bounds", "")) + " || end-to-end groups of this run: " + e2e.describe_groups(groups(tier))
    return m
