import itertools, sympy, z3, time
from comb_spec_searcher.strategies.constructor import DisjointUnion, CartesianProduct
class K:
    def __init__(self, params, m=0): self.extra_parameters = params; self.m = m
    def minimum_size_of_object(self): return self.m
    def is_atom(self): return False
    def get_minimum_value(self, p): return 0
N = 3   # order in x ; statistics degrees <= N too
VARS = ('x', 'k')
def zero(): return {}
def add(a, b):
    r = dict(a)
    for m, c in b.items(): r[m] = r.get(m, 0) + c
    return r
def mul(a, b):
    r = {}
    for m1, c1 in a.items():
        for m2, c2 in b.items():
            m = tuple(i + j for i, j in zip(m1, m2))
            if all(e <= N for e in m): r[m] = r.get(m, 0) + c1 * c2
    return r
def const(c): return {(0,) * len(VARS): c} if c != 0 else {}
def var(name): return {tuple(1 if v == name else 0 for v in VARS): 1}
def interp(e, funcs):
    if e.is_Integer: return const(int(e))
    if e.is_Symbol: return var(str(e))
    if e.is_Add:
        r = zero()
        for a in e.args: r = add(r, interp(a, funcs))
        return r
    if e.is_Mul:
        r = const(1)
        for a in e.args: r = mul(r, interp(a, funcs))
        return r
    if e.is_Pow:
        b, ex = e.args; assert ex.is_Integer and int(ex) >= 0
        r = const(1); bb = interp(b, funcs)
        for _ in range(int(ex)): r = mul(r, bb)
        return r
    if isinstance(e, sympy.core.function.AppliedUndef):
        series, argnames = funcs[e.func.__name__]       # series in its own formal variables argnames
        subs = [interp(a, funcs) for a in e.args]         # each actual argument as a series
        r = zero()
        for mon, c in series.items():
            t = const(1)
            for s, p in zip(subs, mon):
                for _ in range(p): t = mul(t, s)
            r = add(r, mul(const(1), {m: c * v for m, v in t.items()}))
        return r
    raise NotImplementedError(e)
def unknown_series(name, nparams):
    s = {}
    for mon in itertools.product(range(N + 1), repeat=1 + nparams):
        s[mon] = z3.Int(f"{name}_{'_'.join(map(str, mon))}")
    return s
x, k = sympy.symbols('x k')
F0, F1, F2 = [sympy.Function(f"F_{i}") for i in range(3)]
# union with identity maps
P = K(('k',)); A = K(('k',)); B = K(('k',))
sa, sb = unknown_series('a', 1), unknown_series('b', 1)
for name, cons, ref in (
    ('union', DisjointUnion(P, (A, B), ({'k': 'k'}, {'k': 'k'})), lambda: add(sa, sb)),
    ('product', CartesianProduct(P, (A, B), ({'k': 'k'}, {'k': 'k'})), lambda: mul(sa, sb)),
):
    eq = cons.get_equation(F0(x, k), (F1(x, k), F2(x, k)))
    print(name, eq)
    funcs = {'F_0': (ref(), ('x', 'k')), 'F_1': (sa, ('x', 'k')), 'F_2': (sb, ('x', 'k'))}
    lhs = interp(eq.lhs, funcs); rhs = interp(eq.rhs, funcs)
    t = time.time(); s = z3.Solver(); bad = []
    for mon in set(lhs) | set(rhs):
        s.push(); s.add(lhs.get(mon, 0) != rhs.get(mon, 0)); r = s.check(); s.pop()
        if str(r) != 'unsat': bad.append((mon, r))
    print(name, 'coefficients', len(set(lhs) | set(rhs)), 'bad', bad, round(time.time() - t, 2), 's')
