#!/bin/bash
# runs every registered check of the given tier, one after the other; prints exit code and wall time
tier=${1:-quick}; shift
cd "$(dirname "$0")/.." || exit 9
[ -n "${VP_RUN_REPO:-}" ] && export VERIF_REPO="$VP_RUN_REPO"
for id in ${@:-C01 C02 C03 C04 C05 C06 C07 C08 C09 C10 C11 C12 C13 C14 C15 C16 C17 C18 C19 C20}; do
  t0=$(date +%s)
  /venv/bin/python run_check.py $id --tier $tier > /tmp/run_$id.$tier.log 2>&1
  rc=$?
  if [ "$tier" = thorough ] && [ $rc -eq 0 ]; then mkdir -p evidence/thorough; cp evidence/$id.json evidence/thorough/$id.json; fi
  echo "$id $tier exit=$rc $(( $(date +%s) - t0 ))s  $(grep -c KNOWN-FINDING /tmp/run_$id.$tier.log) known-finding lines"
done
