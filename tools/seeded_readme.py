#!/venv/bin/python
"""Builds seeded/README.md and fills meta.json 'detected_by' from seeded/MATRIX.tsv."""
import collections, glob, json, os, re
V = os.path.dirname(os.path.dirname(os.path.abspath(__file__)))
rows = collections.defaultdict(list)
for fn in ("MATRIX.tsv", "MATRIX.r2.tsv"):
    f = os.path.join(V, "seeded", fn)
    if not os.path.exists(f):
        continue
    for line in open(f):
        p = line.rstrip("\n").split("\t")
        if len(p) >= 4:
            rows[p[0]].append((p[1], p[2], p[3]))
out = ["# Seeded changes and the checks that catch them", "",
       "Each directory holds one behaviour-breaking change to PermutaTriangle/comb_spec_searcher written by an independent sub-agent that was",
       "given only the text of a property and a scratch worktree (nothing from /verif). Every change was re-confirmed in a private scratch",
       "worktree (`tools/ingest_mutant.sh`): the demo passes on the pinned tree; with the patch the 45 tests pass and the demo fails.",
       "Directories `<prop>-r2mN` are a second round written against the repaired tree (base commit in meta.json; `MATRIX.r2.tsv`).",
       "`MATRIX.tsv` is produced by `tools/mutant_matrix.sh`: the patch (`patch.rebased.diff` where a later fix: commit touched the same",
       "lines) is applied to /repo, the *quick* check is run, the patch is reverted. exit=1 means VIOLATION with a natively replayed input.", "",
       "| change | what it is (first line of the author's notes) | own quick check | other quick checks tried |", "|---|---|---|---|"]
caught = missed = 0
for d in sorted(glob.glob(os.path.join(V, "seeded", "C*-m*")) + glob.glob(os.path.join(V, "seeded", "C*-r2m*"))):
    m = os.path.basename(d)
    pid = m.split("-")[0]
    notes = ""
    f = os.path.join(d, "notes.md")
    if os.path.exists(f):
        for l in open(f):
            l = l.strip().lstrip("#").strip()
            if l:
                notes = l
                break
    own = [r for r in rows.get(m, []) if r[0] == pid]
    oth = [r for r in rows.get(m, []) if r[0] != pid]
    def fmt(rs):
        return ", ".join("%s: %s (%s)" % (c, "**caught**" if e == "exit=1" else ("missed" if e == "exit=0" else e), t) for c, e, t in rs) or "-"
    det = [c for c, e, t in rows.get(m, []) if e == "exit=1"]
    if det:
        caught += 1
    else:
        missed += 1
    out.append("| %s | %s | %s | %s |" % (m, notes[:150].replace("|", "/"), fmt(own), fmt(oth)))
    mf = os.path.join(d, "meta.json")
    meta = json.load(open(mf))
    meta["detected_by"] = ["%s quick check" % c for c in det] or ["not detected by any quick check tried (see seeded/README.md)"]
    meta["what_was_run"] = ["tools/try_mutant.sh %s/patch.diff quick %s -> %s" % (d, c, e) for c, e, t in rows.get(m, [])]
    json.dump(meta, open(mf, "w"), indent=1)
out += ["", "%d of %d changes are caught by at least one quick check; %d are not." % (caught, caught + missed, missed), ""]
open(os.path.join(V, "seeded", "README.md"), "w").write("\n".join(out))
print(caught, missed)
