import sys
sys.path.insert(0, '/repo')
import logzero, logging
logzero.loglevel(logging.CRITICAL)
from example import AvoidingWithPrefix, pack
from comb_spec_searcher import CombinatorialSpecificationSearcher, CombinatorialSpecification
import comb_spec_searcher.comb_spec_searcher as cssmod
import comb_spec_searcher.class_db as m1, comb_spec_searcher.rule_db.forest as m2, comb_spec_searcher.tree_searcher as m3, comb_spec_searcher.utils as m4
import itertools
logzero.loglevel(logging.CRITICAL)

class AWP(AvoidingWithPrefix):
    def __hash__(self):
        h = 7 if self.just_prefix else 3
        for c in self.prefix:
            h = (h * 31 + ord(c)) % 1000003
        return h
import example
example.AvoidingWithPrefix = AWP

from crosshair.tracers import NoTracing, ResumedTracing
class Tape:
    def __init__(self, draws): self.d = list(draws); self.i = 0
    def draw(self, cap):
        if self.i >= len(self.d): return 0
        v = self.d[self.i]; self.i += 1
        with ResumedTracing():
            for k in range(cap):
                if v == k: return k
        return cap - 1
TAPE = [None]
def _choice(seq): return seq[TAPE[0].draw(len(seq))]
def _shuffle(x):
    for i in reversed(range(1, len(x))):
        j = TAPE[0].draw(i + 1); x[i], x[j] = x[j], x[i]
m3.choice = _choice; m3.shuffle = _shuffle

class Clock:
    def __init__(self, jumps):
        self.jumps = jumps; self.i = 0; self.t = 1000.0
    def time(self):
        with ResumedTracing():
            for j in self.jumps:
                if j == self.i:
                    self.t += 5000.0
        self.i += 1
        self.t += 1.0
        return self.t
class Frozen:
    @staticmethod
    def time(): return 1000.0
for m in (m1, m2, m3, m4):
    m.time = Frozen

PATTS = [('aa',), ('ab',), ('aa', 'bb'), ('aba', 'bb')]
def brute(ps, n):
    return sum(1 for w in itertools.product('ab', repeat=n) if all(p not in ''.join(w) for p in ps))

def check(u: int, j0: int, d0: int, d1: int) -> bool:
    """
    pre: 0 <= u < 2 and 0 <= j0 < 150 and 0 <= d0 < 3 and 0 <= d1 < 3
    post: _
    """
    ps = None
    for k in range(len(PATTS)):
        if u == k:
            ps = PATTS[k]
    clock = Clock([j0]); TAPE[0] = Tape([d0, d1])
    old = cssmod.time
    cssmod.time = clock
    for m in (m1, m2, m3, m4): m.time = clock
    try:
      with NoTracing():
        s = CombinatorialSpecificationSearcher(AWP('', ps, ['a', 'b']), pack)
        rules = s._auto_search_rules()
        spec = CombinatorialSpecification(s.start_class, rules)
        ok = all(spec.count_objects_of_size(n) == brute(ps, n) for n in range(5))
    finally:
        cssmod.time = old
        for m in (m1, m2, m3, m4): m.time = Frozen
    return ok
