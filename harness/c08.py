"""C08 - random sampling from a specification is exactly uniform.

Pattern T on the STUB universe; the random source is a solver variable.
(a) real DisjointUnion.random_sample_sub_objects: counts c_i >= 0 *unbounded*, requested statistic values, draw r in
    [1, total]: the child descended into is the one whose prefix-sum bracket contains r, the skip rules (contradicting
    parameters, parent statistic not tracked by the child but non-zero) are honoured, and the child is asked with the
    correctly mapped parameters.  Hence P(child i) = c_i / total for every count vector.
(b) real CartesianProduct.random_sample_sub_objects / _valid_compositions / get_extra_parameters: counts per
    (child, size, statistic) symbolic in [0,B], draw symbolic: the library's enumeration of size/statistic splits is
    exactly the set of valid splits (each once), and the split descended into is the one whose bracket (weights =
    products of counts, in the library's own enumeration order) contains r.
(c) real Rule.random_sample_object_of_size: the final choice is uniform over the preimages (draw d -> d-th preimage).
(d) whole specifications on REG (harness/e2e.py): for every returned specification, size and statistic value the *exact*
    output distribution is computed by enumerating all outcomes of the random source (odometer over the draws, probability
    = product of 1/range) and must be uniform over the brute-force objects; empty sizes must be refused.
"""
import itertools
from collections import Counter

import comb_spec_searcher.strategies.constructor.cartesian as cart_mod
import comb_spec_searcher.strategies.constructor.disjoint as dj_mod
import comb_spec_searcher.strategies.rule as rule_mod
from comb_spec_searcher.strategies.constructor import CartesianProduct, DisjointUnion
from comb_spec_searcher.strategies.rule import Rule

from universes.stub import K, Prod, Union
from vlib import core

LAST_FAILURE = None
VMAX = 2


def _fail(msg):
    global LAST_FAILURE
    LAST_FAILURE = msg
    return False


class _Rand:
    """random / randint replacement returning the harness' draw (must respect the requested range)."""

    def __init__(self):
        self.value = 0
        self.bad_range = False

    def randint(self, a, b):
        if not (a <= self.value <= b):
            self.bad_range = True
        return self.value

    def choice(self, seq):
        return seq[self.value]


# ------------------------------------------------------------------ (a) union
def run_union(shape, counts, pvals, r):
    P = shape["parent"]
    kids = [K(i + 1, 0, False, ch) for i, ch in enumerate(shape["children"])]
    parent = K(0, 0, False, P)
    maps = shape["maps"]
    du = DisjointUnion(parent, tuple(kids), tuple(maps))
    n = 3
    params = dict(zip(P, pvals))
    # reference: which children can contain objects with these parent parameters, and with which child parameters
    elig = []
    for i, m in enumerate(maps):
        want = {}
        ok = True
        for q in P:
            if q in m:
                if m[q] in want and want[m[q]] != params[q]:
                    ok = False
                want.setdefault(m[q], params[q])
            elif params[q] != 0:
                ok = False
        elig.append(want if ok else None)
    total = 0
    for i, e in enumerate(elig):
        if e is not None:
            total = total + counts[i]
    if not (1 <= r <= total):
        return True
    asked = []

    def rec(i):
        def f(n, **kw):
            asked.append(("rec", i, n, dict(kw)))
            return counts[i]
        return f

    def samp(i):
        def f(n, **kw):
            asked.append(("sample", i, n, dict(kw)))
            return ("obj", i)
        return f

    rnd = _Rand()
    rnd.value = r
    old = dj_mod.randint
    dj_mod.randint = rnd.randint
    try:
        res = du.random_sample_sub_objects(total, tuple(samp(i) for i in range(len(kids))), tuple(rec(i) for i in range(len(kids))), n, **params)
    finally:
        dj_mod.randint = old
    if rnd.bad_range:
        return _fail("the draw was requested outside 1..parent count")
    idx = [i for i, o in enumerate(res) if o is not None]
    if len(res) != len(kids) or len(idx) != 1:
        return _fail("expected exactly one non-None part, got %r" % (res,))
    i = idx[0]
    if elig[i] is None:
        return _fail("descended into child %d which has no object with parameters %r" % (i, params))
    lo = 0
    for j in range(i):
        if elig[j] is not None:
            lo = lo + counts[j]
    if not (lo < r <= lo + counts[i]):
        return _fail("draw %r descended into child %d whose bracket is (%r, %r]" % (r, i, lo, lo + counts[i]))
    if res[i] != ("obj", i):
        return _fail("returned object is not the sampled one")
    for kind, j, nn, kw in asked:
        if nn != n or elig[j] is None or kw != elig[j]:
            return _fail("child %d was asked (%s) with size %r parameters %r, expected %r" % (j, kind, nn, kw, elig[j]))
    return True


def check_u2(c0: int, c1: int, p0: int, p1: int, r: int) -> bool:
    """
    pre: c0 >= 0 and c1 >= 0 and 0 <= p0 <= VMAX and 0 <= p1 <= VMAX and r >= 1
    post: _
    """
    sh = core.SHAPE
    return core.final(run_union(sh, (c0, c1), (p0, p1)[:len(sh["parent"])], r))


def check_u3(c0: int, c1: int, c2: int, p0: int, p1: int, r: int) -> bool:
    """
    pre: c0 >= 0 and c1 >= 0 and c2 >= 0 and 0 <= p0 <= VMAX and 0 <= p1 <= VMAX and r >= 1
    post: _
    """
    sh = core.SHAPE
    return core.final(run_union(sh, (c0, c1, c2), (p0, p1)[:len(sh["parent"])], r))


def check_u4(c0: int, c1: int, c2: int, c3: int, p0: int, r: int) -> bool:
    """
    pre: c0 >= 0 and c1 >= 0 and c2 >= 0 and c3 >= 0 and 0 <= p0 <= VMAX and r >= 1
    post: _
    """
    sh = core.SHAPE
    return core.final(run_union(sh, (c0, c1, c2, c3), (p0,)[:len(sh["parent"])], r))


# ------------------------------------------------------------------ (b) product
def valid_splits(shape, n, params):
    """Independent enumeration of the (size, parent-statistic share) splits over the children and of the child
    parameters each split asks for; a split whose shares contradict (two parent statistics onto one child statistic
    with different shares) accounts for no object."""
    P = shape["parent"]
    ch = shape["children"]
    k = len(ch)
    out = []
    ranges = []
    for i, c in enumerate(ch):
        r_n = range(c["min"], (c["min"] if c.get("atom") else n) + 1)
        per = [r_n]
        for q in P:
            if q in shape["maps"][i]:
                mv = c.get("minv", {}).get(shape["maps"][i][q], 0)
                per.append(range(mv, (mv if c.get("atom") else params[q]) + 1))
            else:
                per.append(range(0, 1))
        ranges.append(list(itertools.product(*per)))
    for combo in itertools.product(*ranges):
        if sum(c[0] for c in combo) != n:
            continue
        if any(sum(c[1 + qi] for c in combo) != params[q] for qi, q in enumerate(P)):
            continue
        asks = []
        ok = True
        for i, c in enumerate(combo):
            want = {}
            for qi, q in enumerate(P):
                if q in shape["maps"][i]:
                    cv = shape["maps"][i][q]
                    if cv in want and want[cv] != c[1 + qi]:
                        ok = False
                    want.setdefault(cv, c[1 + qi])
            asks.append((c[0], want))
        out.append((combo, asks if ok else None))
    return out


def run_product(shape, t, r):
    P = shape["parent"]
    chs = shape["children"]
    kids = [K(i + 1, c["min"], c.get("atom", False), c["params"], c.get("minv")) for i, c in enumerate(chs)]
    pminv = {q: sum(c.get("minv", {}).get(shape["maps"][i].get(q, "?"), 0) for i, c in enumerate(chs)) for q in P}
    parent = K(0, sum(c["min"] for c in chs), False, P, pminv)
    cp = CartesianProduct(parent, tuple(kids), tuple(shape["maps"]))
    n = shape["n"]
    params = dict(zip(P, shape["pvals"]))
    # counts table: (child, size, sorted param items) -> symbolic count, filled lazily in a fixed order
    keys = count_keys(shape)
    table = dict(zip(keys, t))
    for i, c in enumerate(chs):
        if c.get("atom"):
            mv = c.get("minv", {})
            for key in keys:
                if key[0] == i:
                    want = tuple(sorted((p, mv.get(p, 0)) for p in c["params"]))
                    table[key] = 1 if (key[1] == c["min"] and key[2] == want) else 0

    def cnt(i, size, kw):
        return table.get((i, size, tuple(sorted(kw.items()))), 0)

    splits = valid_splits(shape, n, params)
    # the library's own enumeration must be exactly the valid splits, each once
    lib = list(cp._valid_compositions(n, **params))
    lib_keys = []
    for comp in lib:
        lib_keys.append(tuple((d["n"],) + tuple(d[q] for q in P) for d in comp))
    if len(set(lib_keys)) != len(lib_keys):
        return _fail("_valid_compositions yields a split twice: %r" % (lib_keys,))
    ref_keys = {combo for combo, _ in splits}
    if set(lib_keys) != ref_keys:
        return _fail("_valid_compositions yields %r, the valid splits are %r" % (sorted(lib_keys), sorted(ref_keys)))
    asks_of = dict(splits)
    weights = []
    for key in lib_keys:
        asks = asks_of[key]
        if asks is None:
            weights.append(0)
        else:
            w = 1
            for i, (size, want) in enumerate(asks):
                w = w * cnt(i, size, want)
            weights.append(w)
    total = 0
    for w in weights:
        total = total + w
    if not (1 <= r <= total):
        return True
    sampled = []

    def rec(i):
        def f(n, **kw):
            return cnt(i, n, kw)
        return f

    def samp(i):
        def f(n, **kw):
            sampled.append((i, n, dict(kw)))
            return ("obj", i, n)
        return f

    rnd = _Rand()
    rnd.value = r
    old = cart_mod.random
    cart_mod.random = rnd
    try:
        res = cp.random_sample_sub_objects(total, tuple(samp(i) for i in range(len(kids))), tuple(rec(i) for i in range(len(kids))), n, **params)
    finally:
        cart_mod.random = old
    if rnd.bad_range:
        return _fail("the draw was requested outside 1..parent count")
    if len(res) != len(kids) or len(sampled) != len(kids):
        return _fail("expected one sampled part per child, got %r" % (res,))
    # which split was descended into?
    chosen = None
    for j, key in enumerate(lib_keys):
        asks = asks_of[key]
        if asks is not None and all(s[1] == a[0] and s[2] == a[1] for s, a in zip(sorted(sampled), asks)):
            chosen = j
    if chosen is None:
        return _fail("the children were sampled with %r which is no valid split" % (sampled,))
    lo = 0
    for j in range(chosen):
        lo = lo + weights[j]
    if not (lo < r <= lo + weights[chosen]):
        return _fail("draw %r descended into split %r whose bracket is (%r, %r]" % (r, lib_keys[chosen], lo, lo + weights[chosen]))
    return True


def count_keys(shape):
    """All (child, size, child-parameter assignment) the product could ask about, in a fixed order."""
    keys = []
    n = shape["n"]
    V = max(shape["pvals"] + [0])
    for i, c in enumerate(shape["children"]):
        for size in range(c["min"], n + 1):
            for vals in itertools.product(range(V + 1), repeat=len(c["params"])):
                keys.append((i, size, tuple(sorted(zip(c["params"], vals)))))
    return keys


PLEN = 0
PB = 2


def on_shape(shape):
    global PLEN, PB, VMAX
    if "db" in shape:
        e2e.on_shape(shape)
        return
    from typing import Tuple
    if shape.get("kind") == "product":
        PLEN = len(count_keys(shape))
        PB = shape["B"]
        check_p.__annotations__["t"] = Tuple[(int,) * PLEN]
    VMAX = shape.get("V", 2)


def _pb(t) -> bool:
    for i in range(PLEN):
        if not (0 <= t[i] <= PB):
            return False
    return True


def check_p(t: tuple, r: int) -> bool:
    """
    pre: _pb(t) and r >= 1
    post: _
    """
    return core.final(run_product(core.SHAPE, t, r))


# ------------------------------------------------------------------ (c) final choice among preimages
class _Multi(Prod):
    """A product strategy whose backward map has several preimages (a non-injective forward map)."""

    M = 3

    def backward_map(self, c, objs, children=None):
        for j in range(self.M):
            yield ("pre", j, tuple(objs))


def check_choice(d: int, c0: int) -> bool:
    """
    pre: 0 <= d < 3 and 1 <= c0 <= 3
    post: _
    """
    A = K(1, 0)
    B_ = K(2, 1, True)
    parent = K(0, 1)
    rule = _Multi((A, B_))(parent)
    rule.subrecs = (lambda n, **kw: c0 if n == 0 else 0, lambda n, **kw: 1 if n == 1 else 0)
    rule.subsamplers = (lambda n, **kw: ("a", n), lambda n, **kw: ("b", n))
    rule.subterms = (lambda n: Counter({(): c0}) if n == 0 else Counter(), lambda n: Counter({(): 1}) if n == 1 else Counter())
    rnd = _Rand()
    old_c, old_r = cart_mod.random, rule_mod.random

    class _R2:
        @staticmethod
        def randint(a, b):
            return a

        @staticmethod
        def choice(seq):
            return seq[d]

    cart_mod.random = _R2
    rule_mod.random = _R2
    try:
        obj = rule.random_sample_object_of_size(1)
    finally:
        cart_mod.random, rule_mod.random = old_c, old_r
    return core.final(obj == ("pre", d, (("a", 0), ("b", 1))))


# ------------------------------------------------------------------ (d) whole specifications: exact distribution
from fractions import Fraction  # noqa: E402

import harness.e2e as e2e  # noqa: E402
import universes.reg as R  # noqa: E402
from comb_spec_searcher.exception import InvalidOperationError  # noqa: E402
from harness.e2e import Bad  # noqa: E402
from vlib.shims import Clock, patched_env  # noqa: E402


class EnumRNG:
    """Enumerates *all* outcomes of the random source (the generator's decisions are enumerated, not sampled): a run
    replays a prefix of choices and then takes 0; `advance` moves to the next outcome like an odometer.  The probability
    of an outcome is the product of 1/cap over its draws."""

    def __init__(self):
        self.prefix = []
        self.caps = []
        self.pos = 0

    def start(self):
        self.pos = 0
        self.caps = []

    def draw(self, cap):
        if self.pos < len(self.prefix):
            v = self.prefix[self.pos]
        else:
            v = 0
            self.prefix.append(0)
        self.caps.append(cap)
        self.pos += 1
        return v

    def probability(self):
        p = Fraction(1)
        for c in self.caps:
            p /= c
        return p

    def advance(self):
        del self.prefix[len(self.caps):]
        i = len(self.caps) - 1
        while i >= 0 and self.prefix[i] + 1 >= self.caps[i]:
            i -= 1
        if i < 0:
            return False
        self.prefix[i] += 1
        del self.prefix[i + 1:]
        return True

    def choice(self, seq):
        return seq[self.draw(len(seq))]

    def randint(self, a, b):
        return a + self.draw(b - a + 1)

    def shuffle(self, x):
        for i in reversed(range(1, len(x))):
            j = self.draw(i + 1)
            x[i], x[j] = x[j], x[i]


def assert_uniform(ctx):
    spec = ctx.spec
    if spec is None:
        return
    for n in range(ctx.shape.get("nmax", 4) + 1):
        for params in ctx.start.possible_parameters(n):
            key = tuple(params[q] for q in ctx.start.extra_parameters)
            if len(set(key)) > 1:
                continue
            truth = e2e.truth_objects(ctx, n, key)
            rng = EnumRNG()
            dist = {}
            outcomes = 0
            while True:
                rng.start()
                with patched_env(Clock(()), rng):
                    try:
                        obj = spec.random_sample_object_of_size(n, **params)
                    except InvalidOperationError:
                        obj = None
                    except NotImplementedError:
                        core.observe("specifications that decline sampling (complement/quotient rules)")
                        return
                if obj is None:
                    if truth:
                        raise Bad("sampling size %d %r refused although the class has %d such objects" % (n, params, len(truth)))
                    break
                if not truth:
                    raise Bad("sampling size %d %r returned %r although the class has no such object" % (n, params, obj))
                dist[str(obj)] = dist.get(str(obj), Fraction(0)) + rng.probability()
                outcomes += 1
                if outcomes > ctx.shape.get("max_outcomes", 5000):
                    core.observe("sampling distributions too large to enumerate (skipped)")
                    dist = None
                    break
                if not rng.advance():
                    break
            if dist is None or not truth:
                continue
            if sorted(dist) != sorted(truth):
                raise Bad("sampling size %d %r can return %r, the objects are %r" % (n, params, sorted(dist), sorted(truth)))
            for w, p in dist.items():
                if p != Fraction(1, len(truth)):
                    raise Bad("sampling size %d %r returns %r with probability %s, expected 1/%d (exact, over all %d outcomes of the "
                              "random source)" % (n, params, w, p, len(truth), outcomes))
            core.observe("exact sampling distributions checked")


ASSERT = assert_uniform
PREPARE = None

# >>> e2e wrappers
# ---- end-to-end wrappers (same text in every module that uses harness/e2e.py; ASSERT / PREPARE are module globals)
def check_opt(t: int) -> bool:
    """
    pre: e2e.tin(t)
    post: _
    """
    return core.final(e2e.body_opt(t, ASSERT, PREPARE))


def check_sched(t: int, j: int) -> bool:
    """
    pre: e2e.tin(t) and 0 <= j <= e2e.NJ
    post: _
    """
    return core.final(e2e.body_sched(t, j, ASSERT, PREPARE))


def check_sched2(t: int, j0: int, j1: int) -> bool:
    """
    pre: e2e.tin(t) and 0 <= j0 < j1 <= e2e.NJ
    post: _
    """
    return core.final(e2e.body_sched2(t, j0, j1, ASSERT, PREPARE))


def check_rng(t: int, d0: int, d1: int, d2: int) -> bool:
    """
    pre: e2e.tin(t) and 0 <= d0 <= 2 and 0 <= d1 <= 2 and 0 <= d2 <= 2
    post: _
    """
    return core.final(e2e.body_rng(t, (d0, d1, d2), ASSERT, PREPARE))
# <<< e2e wrappers


# ------------------------------------------------------------------ groups
def UC(name, parent, children, maps, V=2):
    return {"name": name, "kind": "union", "parent": parent, "children": children, "maps": maps, "V": V}


def PC(name, parent, children, maps, n, pvals, B=2):
    return {"name": name, "kind": "product", "parent": parent, "children": children, "maps": maps, "n": n, "pvals": pvals, "B": B}


def pch(params=(), mn=0, atom=False, minv=None):
    d = {"params": list(params), "min": mn, "atom": atom}
    if minv:
        d["minv"] = minv
    return d


def groups(tier):
    gs = []
    ucs = [
        UC("u2-nostat", [], [[], []], [{}, {}]),
        UC("u3-nostat", [], [[], [], []], [{}, {}, {}]),
        UC("u4-nostat", [], [[], [], [], []], [{}, {}, {}, {}]),
        UC("u2-ident", ["k"], [["k"], ["k"]], [{"k": "k"}, {"k": "k"}]),
        UC("u3-dropped-middle", ["k"], [["k"], [], ["j"]], [{"k": "k"}, {}, {"k": "j"}]),
        UC("u2-two-onto-one", ["k", "l"], [["j"], ["k", "l"]], [{"k": "j", "l": "j"}, {"k": "k", "l": "l"}]),
        UC("u3-two-stats-mixed", ["k", "l"], [["k"], ["l"], ["a", "b"]], [{"k": "k"}, {"l": "l"}, {"k": "b", "l": "a"}]),
    ]
    for u in ucs:
        k = len(u["children"])
        gs.append({"name": "union-" + u["name"], "fn": "check_u%d" % k, "shape": u, "cond_timeout": 600.0, "path_timeout": 60.0})
    pcs = [
        PC("p2-nostat-n3", [], [pch(mn=1), pch(mn=0)], [{}, {}], 3, []),
        PC("p2-atom-n3", [], [pch(mn=1, atom=True), pch(mn=0)], [{}, {}], 3, []),
        PC("p3-nostat-n3", [], [pch(mn=0), pch(mn=1), pch(mn=0)], [{}, {}, {}], 3, [], B=1),
        PC("p2-ident-n2-k1", ["k"], [pch(["k"], 0), pch(["k"], 0)], [{"k": "k"}, {"k": "k"}], 2, [1]),
        PC("p2-dropped-n2-k1", ["k"], [pch(["a"], 0), pch([], 1)], [{"k": "a"}, {}], 2, [1]),
        PC("p2-two-onto-one-n2", ["k", "l"], [pch(["j"], 0), pch(["l"], 0)], [{"k": "j", "l": "j"}, {"l": "l"}], 2, [1, 1], B=1),
        PC("p2-atom-stat-n2-k2", ["k"], [pch(["k"], 1, True, {"k": 1}), pch(["k"], 0)], [{"k": "k"}, {"k": "k"}], 2, [2]),
    ]
    if tier == "thorough":
        pcs += [
            PC("p2-nostat-n4", [], [pch(mn=1), pch(mn=0)], [{}, {}], 4, [], B=3),
            PC("p3-nostat-n4", [], [pch(mn=0), pch(mn=1), pch(mn=0)], [{}, {}, {}], 4, [], B=1),
            PC("p2-two-onto-one-n2-k21", ["k", "l"], [pch(["j"], 0), pch(["l"], 0)], [{"k": "j", "l": "j"}, {"l": "l"}], 2, [2, 1], B=1),
        ]
    for p in pcs:
        gs.append({"name": "product-" + p["name"], "fn": "check_p", "shape": p, "cond_timeout": 1500.0, "path_timeout": 120.0, "weight": 50})
    gs.append({"name": "choice-among-preimages", "fn": "check_choice", "shape": {}, "cond_timeout": 300.0, "path_timeout": 60.0})
    # (d) whole specifications: the exact output distribution over all outcomes of the random source
    opts = ["plain", "symmetry", "k", "ku", "two"]
    if tier == "thorough":
        opts += ["inferral", "finite", "kk", "factory2", "two-k", "finite-mixed", "inferral-symmetry"]
    e = e2e.std_groups(tier, dbs=("base", "forest"), opts=opts, sched=False, rng=False, S3=False)
    for g in e:
        g["shape"]["nmax"] = 3 if tier == "quick" else 4
        g["shape"]["max_outcomes"] = 1500 if tier == "quick" else 5000
    if tier == "thorough":
        # three-state tables: plain pack, default database, sizes up to 3 (a full run with sizes up to 4 and 20000 outcomes per
        # distribution did not finish in 40 minutes)
        n3 = len(e2e.tables(3))
        for lo in range(0, n3, 300):  # tables 0-99, 300-399, ... (a third of the catalogue)
            hi = min(n3, lo + 100)
            e.append({"name": "opt-base-plain-S3-t%d" % lo, "fn": "check_opt",
                      "shape": {"db": "base", "opt": "plain", "S": 3, "trange": [lo, hi], "nmax": 3, "max_outcomes": 1500},
                      "cond_timeout": 2400.0, "path_timeout": 200.0, "expect_space": hi - lo, "weight": (hi - lo) * 3})
    return gs + e


def selftest(tier):
    # independent enumeration of splits: words over {a,b} of length 2 with one a, split as letter x letter
    sh = PC("t", ["k"], [pch(["k"], 1, False), pch(["k"], 1, False)], [{"k": "k"}, {"k": "k"}], 2, [1])
    sp = valid_splits(sh, 2, {"k": 1})
    assert sorted(c for c, _ in sp) == [((1, 0), (1, 1)), ((1, 1), (1, 0))], sp
    # the outcome enumerator visits every outcome once and the probabilities add up to one
    rng = EnumRNG()
    seen, tot = [], Fraction(0)
    while True:
        rng.start()
        a = rng.randint(1, 3)
        b = rng.choice("xy") if a == 2 else "-"
        seen.append((a, b))
        tot += rng.probability()
        if not rng.advance():
            break
    assert sorted(seen) == [(1, "-"), (2, "x"), (2, "y"), (3, "-")] and tot == 1, (seen, tot)
    return e2e.selftest_universe(tier)


def meta(tier):
    m = {
        "functions": [DisjointUnion.random_sample_sub_objects, DisjointUnion.get_extra_parameters, CartesianProduct.random_sample_sub_objects,
                      CartesianProduct._valid_compositions, CartesianProduct.reliance_profile, CartesianProduct.get_extra_parameters,
                      Rule.random_sample_object_of_size],
        "bounds": "(a) unions of 2-4 children, 7 statistic-map configurations, counts unbounded (z3 Int >= 0), requested statistic values "
                  "0..2, draw unbounded; (b) products of 2-3 children, 7 (quick) / 10 (thorough) configurations with n<=3 (4), counts in "
                  "[0,B] B<=2 (3), draw symbolic; (c) 3 preimages",
        "outside": ["verification strategies' own samplers", "products with more than 3 children or more than 2 statistics",
                    "the composition 'uniform at every rule => uniform for the specification' is an argument (DESIGN.md), (d) samples whole "
                    "specifications on REG over all draw tapes"],
        "stubs": ["randint / random.choice replaced by the harness' draw (range checked)", "sub-samplers and sub-counters are recording stubs"],
        "assumptions": ["sub-counters return the true counts of the children"],
    }
    m["bounds"] = str(m.get("bounds", "")) + " || end-to-end groups of this run: " + e2e.describe_groups(groups(tier))
    return m
