#!/bin/bash
# False-alarm test: behaviour-preserving edits of the repository (seeded/benign/*.diff) must leave the checks green.
cd /verif
declare -A CHECKS=( [B1-unionfind-tiebreak]="C06 C05 C01" [B2-cycle-search-order]="C06 C05" [B3-queue-level-order]="C16 C01" [B4-tablemethod-reorder]="C03 C11"
  [B5-classdb-label-source]="C15 C04" [B6-prune-rewrite]="C05" [B7-union-sampler-skip-test]="C08" [B8-product-terms-per-composition]="C09 C10 C01"
  [B9-searcher-skip-local]="C01 C17" [B10-spec-path-list-copy]="C02 C18" )
out=seeded/benign/MATRIX.tsv
: > $out
for f in seeded/benign/B*.diff; do
  b=$(basename $f .diff)
  for chk in ${CHECKS[$b]}; do
    t0=$(date +%s)
    res=$(tools/try_mutant.sh /verif/$f quick $chk 2>&1 | tail -1)
    echo -e "$b\t$chk\t$res\t$(( $(date +%s) - t0 ))s" | tee -a $out
  done
done
