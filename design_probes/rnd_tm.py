import random, sys, itertools
import p_tm
from comb_spec_searcher.rule_db.forest import TableMethod
def rand_universe(rng, L, R, S, maxar=3):
    rules=[]
    for _ in range(R):
        p=rng.randrange(L); k=rng.randrange(0,maxar+1)
        ch=tuple(rng.randrange(L) for _ in range(k)); sh=tuple(rng.randint(-S,S) for _ in range(k))
        rules.append((p,ch,sh))
    return rules
def main(seed,N,L,R,S):
    rng=random.Random(seed); bad=0
    for t in range(N):
        l=rng.randint(1,L); r=rng.randint(1,R); s=rng.randint(1,S)
        rules=rand_universe(rng,l,r,s)
        try:
            a=p_tm.run(rules); b=p_tm.lfp(rules,l,s)
            if a!=b:
                bad+=1
                if bad<4: print('MISMATCH',rules,a,b)
        except Exception as e:
            bad+=1
            if bad<4: print('EXC',rules,repr(e))
    print('bad',bad,'of',N)
main(int(sys.argv[1]),int(sys.argv[2]),int(sys.argv[3]),int(sys.argv[4]),int(sys.argv[5]))
