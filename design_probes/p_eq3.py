from p_eq import reach
from comb_spec_searcher.equiv_db import EquivalenceDB
from crosshair.tracers import NoTracing
L = 3
def pick(v, cap):
    for k in range(cap):
        if v == k:
            return k
    return cap - 1
def body(labels, v):
    db = EquivalenceDB()
    edges = []
    for a, b in labels:
        db.add_one_way_edge(a, b); edges.append((a, b))
    db.set_verified(v)
    db.connect_cycles()
    r = reach(edges, L)
    for i in range(L):
        for j in range(L):
            if db.equivalent(i, j) != (r[i][j] and r[j][i]):
                return False
            if r[i][j] and r[j][i]:
                p = db.find_path(i, j)
                if p[0] != i or p[-1] != j:
                    return False
                for x, y in zip(p, p[1:]):
                    if (x, y) not in edges:
                        return False
        if db.is_verified(i) != (r[i][v] and r[v][i]):
            return False
    return True
def check(a0: int, b0: int, a1: int, b1: int, a2: int, b2: int, v: int) -> bool:
    """
    pre: 0 <= a0 < 3 and 0 <= b0 < 3 and 0 <= a1 < 3 and 0 <= b1 < 3 and 0 <= a2 < 3 and 0 <= b2 < 3 and 0 <= v < 3
    post: _
    """
    c = [pick(x, 3) for x in (a0, b0, a1, b1, a2, b2, v)]
    with NoTracing():
        return body(((c[0], c[1]), (c[2], c[3]), (c[4], c[5])), c[6])
