claim("C03",
      "Bounded symbolic execution of the real TableMethod: for every ordered rule list of the catalogue the shifts are "
      "solver variables; CrossHair/z3 close every feasible path and on each the table equals the reference least fixed "
      "point after every insertion. Exhaustive inside the bound (shapes, |shift|), nothing outside it.",
      "Trusted: CPython, CrossHair path bookkeeping, z3, the 25-line reference least-fixed-point evaluator (validated "
      "against tests/test_forest.py expectations at every run).",
      "CrossHair symbolic execution (pattern T: symbolic shifts) + z3", "DESIGN.md 2/C03")
