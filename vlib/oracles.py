"""Reference oracles.  Each is short, shares no code with /repo and is validated
natively against the repository's own tests / brute force before a check relies on it
(see the ``selftest`` functions of the harness modules)."""
import itertools
from typing import Dict, Iterable, List, Optional, Sequence, Set, Tuple

IntRule = Tuple[int, Tuple[int, ...], Tuple[int, ...]]  # (parent, children, shifts)


# ----------------------------------------------------------------------------- C03 / C02 / C11
def lfp(rules: Sequence[IntRule], labels: Iterable[int], S: int) -> Dict[int, Optional[int]]:
    """Least fixed point of the 'number of computable terms' operator.

    f(p) = max over rules p -> (c_i, s_i) of min_i (f(c_i) + s_i)   (min over nothing = infinity).
    Kleene iteration from 0 with cap L*S+2: finite values of the least fixed point never
    leave S consecutive values unused, hence are <= L*S, so a value reaching the cap is
    infinite.  S must bound |shift| (and be >= 1).  Returns only non-zero entries, None = infinity."""
    labels = sorted(set(labels) | {r[0] for r in rules} | {c for r in rules for c in r[1]})
    cap = len(labels) * S + 2
    f = {l: 0 for l in labels}
    changed = True
    while changed:
        changed = False
        for (p, ch, sh) in rules:
            if f[p] >= cap:
                continue
            v = cap
            for c, s in zip(ch, sh):
                w = cap if f[c] >= cap else f[c] + s
                if w < v:
                    v = w
            if v > cap:
                v = cap
            if v > f[p]:
                f[p] = v
                changed = True
    return {l: (None if v >= cap else v) for l, v in f.items() if v != 0}


def lfp_pumping(rules: Sequence[IntRule], root: int, S: Optional[int] = None) -> bool:
    if S is None:
        S = max([1] + [abs(s) for r in rules for s in r[2]])
    return lfp(rules, [root], S).get(root, 0) is None


# ----------------------------------------------------------------------------- C05
RulesDict = Dict[int, Set[Tuple[int, ...]]]


def gfp_prune(rd: RulesDict) -> RulesDict:
    """Greatest fixed point: keep rules all of whose children have a kept rule."""
    rd = {k: set(v) for k, v in rd.items() if v}
    while True:
        alive = set(rd)
        new = {}
        for k, rs in rd.items():
            keep = {r for r in rs if all(c in alive for c in r)}
            if keep:
                new[k] = keep
        if new == rd:
            return new
        rd = new


def iterative_derivable(rd: RulesDict, root: int) -> Set[int]:
    """Labels derivable bottom-up when recursion is allowed to `root` only."""
    ok = {root}
    der: Set[int] = set()
    changed = True
    while changed:
        changed = False
        for k, rs in rd.items():
            if k in der:
                continue
            if any(all((c in der) or (c == root) for c in r) for r in rs):
                der.add(k)
                changed = True
    return der


def all_proof_trees_min_size(rd: RulesDict, root: int, limit: int = 64) -> Optional[int]:
    """Minimum number of nodes of a proof tree of `root` (recursive packs): a tree in which the
    first occurrence of a label on a root-to-leaf path is expanded by one of its rules and a
    label seen among its ancestors is a leaf; every label expanded uses one rule everywhere.
    Exhaustive over assignments label -> rule (small dictionaries only)."""
    rd = gfp_prune(rd)
    if root not in rd:
        return None
    labels = sorted(rd)
    best = None
    choices = [sorted(rd[l]) for l in labels]
    for assign in itertools.product(*choices):
        rule = dict(zip(labels, assign))
        # size of the tree obtained by unfolding from root, recursion on ancestors = leaf
        size = _tree_size(rule, root, limit)
        if size is not None and (best is None or size < best):
            best = size
    return best


def _tree_size(rule, root, limit):
    seen: Set[int] = set()
    count = 0
    stack = [root]
    # the library's trees expand each label once (first time met in DFS), later occurrences are leaves
    while stack:
        l = stack.pop()
        count += 1
        if count > limit:
            return None
        if l in seen:
            continue
        seen.add(l)
        for c in rule[l]:
            stack.append(c)
    return count


# ----------------------------------------------------------------------------- C06
def reach_matrix(edges: Iterable[Tuple[int, int]], L: int) -> List[List[bool]]:
    r = [[i == j for j in range(L)] for i in range(L)]
    for a, b in edges:
        r[a][b] = True
    for k in range(L):
        for i in range(L):
            if r[i][k]:
                for j in range(L):
                    if r[k][j]:
                        r[i][j] = True
    return r
