"""Driver: runs query groups under CrossHair in a process pool, replays models
natively, discharges direct z3 obligations, writes evidence, prints the verdict.

Exit codes: 0 holds within the bound / 1 VIOLATION (replayed) / 2 inconclusive /
3 harness error (non-reproducing model, oracle self-test failed, ...).
"""
import argparse
import collections
import hashlib
import importlib
import inspect
import json
import os
import re
import signal
import subprocess
import sys
import time
import traceback
from typing import Any, Dict, List, Optional, Tuple

VERIF = os.path.dirname(os.path.dirname(os.path.abspath(__file__)))
if VERIF not in sys.path:
    sys.path.insert(0, VERIF)

from vlib import core  # noqa: E402

EVIDENCE_DIR = os.path.join(VERIF, "evidence")
REPLAY_DIR = os.path.join(VERIF, "replays")
FINDINGS_FILE = os.path.join(VERIF, "known_findings.json")
NCPU = min(16, os.cpu_count() or 1)


# --------------------------------------------------------------------------- findings
def load_findings() -> List[Dict[str, Any]]:
    try:
        with open(FINDINGS_FILE) as f:
            return json.load(f).get("findings", [])
    except FileNotFoundError:
        return []


# --------------------------------------------------------------------------- worker side
class HardTimeout(BaseException):
    pass


def _alarm(signum, frame):
    raise HardTimeout()


_Z3 = {"checks": 0, "seconds": 0.0, "wrapped": False}


def _wrap_z3():
    if _Z3["wrapped"]:
        return
    import z3

    orig = z3.Solver.check

    def check(self, *a, **k):
        t = time.perf_counter()
        try:
            return orig(self, *a, **k)
        finally:
            _Z3["checks"] += 1
            _Z3["seconds"] += time.perf_counter() - t

    z3.Solver.check = check
    _Z3["wrapped"] = True


def parse_call(message: str) -> Optional[Tuple[str, tuple, dict]]:
    """Extract (function name, args, kwargs) from a CrossHair counterexample message."""
    i = message.rfind("when calling ")
    if i < 0:
        return None
    s = message[i + len("when calling "):]
    m = re.match(r"([A-Za-z_][A-Za-z0-9_\.]*)\(", s)
    if not m:
        return None
    depth = 0
    start = m.end() - 1
    end = None
    instr = None
    j = start
    while j < len(s):
        c = s[j]
        if instr:
            if c == "\\":
                j += 1
            elif c == instr:
                instr = None
        elif c in "\"'":
            instr = c
        elif c in "([{":
            depth += 1
        elif c in ")]}":
            depth -= 1
            if depth == 0:
                end = j
                break
        j += 1
    if end is None:
        return None
    argstr = s[start + 1:end]
    try:
        a, k = eval("_cap(" + argstr + ")", {"_cap": lambda *a, **k: (a, k)})  # noqa: S307
    except Exception:
        return None
    return m.group(1), a, k


def _analyze(fn, cond_timeout: float, path_timeout: float):
    from crosshair.core_and_libs import analyze_function, run_checkables
    from crosshair.options import AnalysisOptionSet

    stats: collections.Counter = collections.Counter()
    opts = AnalysisOptionSet(
        per_condition_timeout=cond_timeout,
        per_path_timeout=path_timeout,
        report_all=True,
        stats=stats,
        max_uninteresting_iterations=sys.maxsize,
    )
    checkables = analyze_function(fn, opts)
    msgs = list(run_checkables(checkables))
    return msgs, stats


def _classify(msgs) -> Tuple[str, str]:
    """-> (status, text)   status in confirmed/refuted/unknown/pre_unsat/error"""
    if not msgs:
        return "error", "no message from CrossHair"
    states = [(m.state.name, m.message) for m in msgs]
    for st, txt in states:
        if st in ("POST_FAIL", "EXEC_ERR", "POST_ERR"):
            return "refuted", txt
    for st, txt in states:
        if st in ("SYNTAX_ERR", "IMPORT_ERR"):
            return "error", txt
    for st, txt in states:
        if st == "PRE_UNSAT":
            return "pre_unsat", txt
    for st, txt in states:
        if st == "CANNOT_CONFIRM":
            return "unknown", txt
    if all(st == "CONFIRMED" for st, _ in states):
        return "confirmed", states[0][1]
    return "error", repr(states)


def run_group(spec: Dict[str, Any]) -> Dict[str, Any]:
    """Runs in a worker process.  spec: module, fn, shape, name, cond_timeout, path_timeout."""
    t0 = time.time()
    out: Dict[str, Any] = {"name": spec["name"], "fn": spec["fn"], "shape": spec.get("shape")}
    hard = int(spec.get("hard_timeout") or (spec["cond_timeout"] * 2 + 120))
    signal.signal(signal.SIGALRM, _alarm)
    signal.alarm(hard)
    try:
        _wrap_z3()
        mod = importlib.import_module(spec["module"])
        core.OPEN_FINDINGS[:] = [f for f in load_findings() if f.get("status") == "open"]
        core.set_shape(spec.get("shape"))
        if hasattr(mod, "on_shape"):
            mod.on_shape(spec.get("shape"))
        fn = getattr(mod, spec["fn"])
        c0, s0 = _Z3["checks"], _Z3["seconds"]
        core.TWIN = False
        core.TALLY.clear()
        core.OBSERVED.clear()
        core.SKIPPED[:] = []
        msgs, stats = _analyze(fn, spec["cond_timeout"], spec["path_timeout"])
        status, text = _classify(msgs)
        out.update(
            status=status,
            message=text,
            num_paths=int(stats.get("num_paths", 0)),
            z3_checks=_Z3["checks"] - c0,
            z3_seconds=round(_Z3["seconds"] - s0, 3),
            tally=len(core.TALLY),
            tally_samples=[list(v) if isinstance(v, tuple) else v for v in sorted(core.TALLY, key=repr)[:3]],
            skipped_known=sorted(set(i for i, _ in core.SKIPPED)),
            observed=dict(core.OBSERVED),
        )
        if status == "refuted":
            out["call"] = parse_call(text)
        # reachability twin (vacuity guard): must be refuted
        if spec.get("twin", True) and status in ("confirmed", "unknown", "pre_unsat"):
            core.TWIN = True
            try:
                tmsgs, tstats = _analyze(fn, min(spec["cond_timeout"], 120.0), spec["path_timeout"])
            finally:
                core.TWIN = False
            tstatus, ttext = _classify(tmsgs)
            out["twin"] = tstatus
            out["twin_call"] = parse_call(ttext) if tstatus == "refuted" else None
            out["twin_paths"] = int(tstats.get("num_paths", 0))
    except HardTimeout:
        out.update(status="unknown", message="hard wall-clock timeout (%ds)" % hard)
    except BaseException as e:  # noqa: BLE001
        out.update(status="error", message="%s: %s\n%s" % (type(e).__name__, e, traceback.format_exc()[-1500:]))
    finally:
        signal.alarm(0)
        core.TWIN = False
    out["wall_s"] = round(time.time() - t0, 2)
    return out



# --------------------------------------------------------------------------- process pool (fork per group)
def _child(spec, conn):
    try:
        r = run_group(spec)
    except BaseException as e:  # noqa: BLE001
        r = {"name": spec["name"], "fn": spec["fn"], "shape": spec.get("shape"), "status": "error",
             "message": "worker crashed: %r" % (e,), "wall_s": 0}
    try:
        conn.send(r)
    finally:
        conn.close()
        os._exit(0)


def run_pool(groups, order, jobs, verbose=False):
    """One forked process per query group, at most `jobs` at a time; the parent enforces a hard
    wall-clock limit per group.  (concurrent.futures' max_tasks_per_child hangs on CPython 3.12.1.)"""
    import multiprocessing as mp
    from multiprocessing.connection import wait

    ctx = mp.get_context("fork")
    results: List[Optional[Dict[str, Any]]] = [None] * len(groups)
    pending = list(order)
    running: Dict[Any, Tuple[int, Any, float]] = {}
    done = 0
    while pending or running:
        while pending and len(running) < max(1, jobs):
            i = pending.pop(0)
            parent, child = ctx.Pipe(duplex=False)
            p = ctx.Process(target=_child, args=(groups[i], child), daemon=True)
            p.start()
            child.close()
            running[parent] = (i, p, time.time())
        ready = wait(list(running), timeout=5.0)
        now = time.time()
        for conn in list(running):
            i, p, st = running[conn]
            g = groups[i]
            hard = float(g.get("hard_timeout") or (g["cond_timeout"] * 2 + 120)) + 60.0
            fin = False
            if conn in ready:
                try:
                    results[i] = conn.recv()
                except EOFError:
                    results[i] = {"name": g["name"], "fn": g["fn"], "shape": g.get("shape"), "status": "error",
                                  "message": "worker died without a result (exit code %s)" % p.exitcode, "wall_s": now - st}
                fin = True
            elif now - st > hard:
                p.kill()
                results[i] = {"name": g["name"], "fn": g["fn"], "shape": g.get("shape"), "status": "unknown",
                              "message": "killed by the driver after %ds wall" % hard, "wall_s": now - st}
                fin = True
            if fin:
                conn.close()
                p.join(timeout=10)
                del running[conn]
                done += 1
                if verbose:
                    r = results[i]
                    print("[%d/%d] %s %s paths=%s wall=%ss %s" % (done, len(groups), r["name"], r["status"],
                          r.get("num_paths"), r.get("wall_s"), (r.get("message") or "")[:160] if r["status"] != "confirmed" else ""),
                          file=sys.stderr, flush=True)
    return results

# --------------------------------------------------------------------------- native replay
def replay_native(module: str, fn: str, shape: Any, args: list, kwargs: dict) -> Tuple[bool, str]:
    """Run the harness function natively in a fresh interpreter.  -> (violated?, text)"""
    payload = json.dumps({"module": module, "fn": fn, "shape": shape, "args": args, "kwargs": kwargs})
    env = dict(os.environ, PYTHONHASHSEED="0", PYTHONDONTWRITEBYTECODE="1")
    r = subprocess.run(
        [sys.executable, os.path.join(VERIF, "vlib", "replay_child.py")],
        input=payload, capture_output=True, text=True, env=env, timeout=1800,
    )
    last = (r.stdout.strip().splitlines() or [""])[-1]
    if r.returncode == 11:
        return True, last
    if r.returncode == 10:
        return False, last
    return False, "replay child failed rc=%s: %s" % (r.returncode, (r.stderr or r.stdout)[-800:])


def _jsonable(x: Any) -> Any:
    if isinstance(x, (list, tuple)):
        return [_jsonable(i) for i in x]
    if isinstance(x, dict):
        return {str(k): _jsonable(v) for k, v in x.items()}
    if isinstance(x, (int, float, str, bool)) or x is None:
        return x
    return repr(x)


def save_replay(pid: str, module: str, fn: str, shape: Any, args, kwargs, text: str) -> str:
    os.makedirs(REPLAY_DIR, exist_ok=True)
    body = {"property": pid, "module": module, "fn": fn, "shape": _jsonable(shape),
            "args": _jsonable(args), "kwargs": _jsonable(kwargs), "message": text}
    h = hashlib.sha256(json.dumps(body, sort_keys=True).encode()).hexdigest()[:12]
    path = os.path.join(REPLAY_DIR, "%s-%s.json" % (pid, h))
    with open(path, "w") as f:
        json.dump(body, f, indent=1)
    return path


# --------------------------------------------------------------------------- E2 obligations
def discharge_z3(obligs: List[Tuple[str, Any]]) -> List[Dict[str, Any]]:
    """Each obligation is (name, claim: z3.BoolRef).  Valid iff Not(claim) is unsat.
    Decided with the z3 wheel, cross-checked with /usr/bin/z3 on an SMT-LIB2 dump."""
    import z3

    res = []
    for name, claim in obligs:
        t = time.time()
        s = z3.Solver()
        s.set("timeout", 60000)
        s.add(z3.Not(claim))
        r = str(s.check())
        model = None
        if r == "sat":
            m = s.model()
            model = {str(d): str(m[d]) for d in m.decls()}
        t1 = time.time() - t
        # cross-check
        smt = s.to_smt2()
        cross = "skipped"
        try:
            p = subprocess.run(["/usr/bin/z3", "-in", "-T:60"], input=smt, capture_output=True, text=True, timeout=90)
            outl = p.stdout.strip().splitlines()
            cross = "error" if any("(error" in l for l in outl) else (outl[0] if outl else "error")
        except Exception as e:  # noqa: BLE001
            cross = "error:%s" % type(e).__name__
        res.append({"name": name, "result": r, "cross": cross, "seconds": round(t1, 3), "model": model})
    return res


# --------------------------------------------------------------------------- main
def _sum_observed(results):
    tot: Dict[str, int] = {}
    for r in results:
        for k, v in ((r or {}).get("observed") or {}).items():
            tot[k] = tot.get(k, 0) + int(v)
    return tot


def fn_digest(objs) -> List[Dict[str, str]]:
    out = []
    for o in objs:
        try:
            src = inspect.getsource(o)
            name = getattr(o, "__module__", "?") + "." + getattr(o, "__qualname__", repr(o))
            out.append({"function": name, "sha256": hashlib.sha256(src.encode()).hexdigest()[:16]})
        except Exception:  # noqa: BLE001
            out.append({"function": repr(o), "sha256": "unavailable"})
    return out


def main(argv=None) -> int:
    ap = argparse.ArgumentParser()
    ap.add_argument("pid")
    ap.add_argument("--tier", default=os.environ.get("VERIF_TIER", "quick"), choices=["quick", "thorough"])
    ap.add_argument("--replay", default=None)
    ap.add_argument("--only", default=None, help="substring filter on group names (debugging; evidence marks it)")
    ap.add_argument("--jobs", type=int, default=NCPU)
    ap.add_argument("--verbose", "-v", action="store_true")
    a = ap.parse_args(argv)
    pid = a.pid.upper()
    seed = int(os.environ.get("VERIF_SEED", "0") or 0)
    modname = "harness." + pid.lower()
    t0 = time.time()

    import logging
    try:
        import comb_spec_searcher  # noqa: F401
        import logzero
        logzero.loglevel(logging.CRITICAL)
    except Exception as e:  # noqa: BLE001
        print("HARNESS-ERROR cannot import comb_spec_searcher from /repo: %r" % (e,))
        return 3

    if a.replay:
        with open(a.replay) as f:
            body = json.load(f)
        if str(body["fn"]).startswith("e2:"):
            m = importlib.import_module(body["module"])
            rep = m.e2_replay(body["fn"][3:], body["args"][0])
            bad, text = bool(rep), str(rep)
        else:
            bad, text = replay_native(body["module"], body["fn"], body["shape"], body["args"], body.get("kwargs", {}))
        print("replay:", "VIOLATED" if bad else "holds", text)
        if bad:
            print("VIOLATION property=%s replay=%s" % (pid, a.replay))
            return 1
        return 0

    try:
        mod = importlib.import_module(modname)
    except Exception as e:  # noqa: BLE001
        # a change to /repo that breaks importing the harness' targets is reported, not hidden
        print("HARNESS-ERROR import of %s failed: %s" % (modname, traceback.format_exc()[-2000:]))
        return 3

    findings = [f for f in load_findings() if f.get("property") == pid]
    exit_code = 0
    notes: List[str] = []

    # 1. oracle / universe self-validation (native)
    selftest_info: Dict[str, Any] = {}
    if hasattr(mod, "selftest"):
        try:
            selftest_info = mod.selftest(a.tier) or {}
        except Exception:  # noqa: BLE001
            print("HARNESS-ERROR oracle/universe self-validation failed:\n" + traceback.format_exc()[-3000:])
            return 3

    # 2. open known findings: replay each witness natively
    known_lines = []
    for f in findings:
        if f.get("status") != "open":
            continue
        w = f["witness"]
        bad, text = replay_native(w["module"], w["fn"], w.get("shape"), w["args"], w.get("kwargs", {}))
        if bad:
            known_lines.append("KNOWN-FINDING: property=%s %s [%s]" % (pid, f["what"], f["id"]))
        else:
            notes.append("known finding %s no longer reproduces (stale entry; it suppresses nothing)" % f["id"])

    # 3. query groups
    import crosshair.core_and_libs  # noqa: F401  (imported once, inherited by the forked workers)
    _wrap_z3()
    groups = mod.groups(a.tier)
    if a.only:
        groups = [g for g in groups if a.only in g["name"]]
        notes.append("--only filter active: partial run")
    for g in groups:
        g.setdefault("module", modname)
        g.setdefault("cond_timeout", 120.0)
        g.setdefault("path_timeout", 60.0)
    import random
    order = list(range(len(groups)))
    random.Random(seed).shuffle(order)
    # longest first inside the shuffled order helps the pool; weight is optional
    order.sort(key=lambda i: -float(groups[i].get("weight", 0)))
    results = run_pool(groups, order, a.jobs, a.verbose)

    violations: List[str] = []
    inconclusive: List[str] = []
    errors: List[str] = []
    for g, r in zip(groups, results):
        assert r is not None
        st = r["status"]
        if st == "refuted":
            call = r.get("call")
            if not call:
                errors.append("%s: counterexample could not be parsed: %s" % (r["name"], r["message"]))
                continue
            _, args, kwargs = call
            if len(violations) >= 3:
                notes.append("%s: also refuted by CrossHair (model %r); not replayed, 3 violations already reproduced" % (r["name"], call[1:]))
                continue
            bad, text = replay_native(g["module"], g["fn"], g.get("shape"), _jsonable(args), _jsonable(kwargs))
            r["replay"] = {"reproduced": bad, "text": text}
            if bad:
                path = save_replay(pid, g["module"], g["fn"], g.get("shape"), args, kwargs, r["message"])
                r["replay"]["path"] = path
                violations.append(path)
            else:
                errors.append("%s: model %r did not reproduce natively (%s)" % (r["name"], call, text))
        elif st == "confirmed":
            if g.get("twin", True) and r.get("twin") != "refuted":
                errors.append("%s: reachability twin came back %s (vacuous harness?)" % (r["name"], r.get("twin")))
            exp = g.get("expect_space")
            if exp is not None and r.get("tally") != exp:
                errors.append("%s: decision-space tally %s != expected %s" % (r["name"], r.get("tally"), exp))
        elif st in ("unknown", "pre_unsat"):
            inconclusive.append("%s: %s %s" % (r["name"], st, r.get("message", "")[:200]))
        else:
            errors.append("%s: %s" % (r["name"], r.get("message", "")[:1500]))

    # 4. direct z3 obligations
    e2_results: List[Dict[str, Any]] = []
    if hasattr(mod, "e2_obligations"):
        try:
            obligs = mod.e2_obligations(a.tier)
            e2_results = discharge_z3(obligs)
        except Exception:  # noqa: BLE001
            errors.append("building E2 obligations failed: " + traceback.format_exc()[-2500:])
        for o in e2_results:
            if o["result"] == "unsat" and o["cross"] == "unsat":
                continue
            if o["result"] == "sat":
                # replay: the harness module turns the model into a native run of the real code
                rep = None
                if hasattr(mod, "e2_replay"):
                    try:
                        rep = mod.e2_replay(o["name"], o["model"])
                    except Exception:  # noqa: BLE001
                        rep = None
                if rep:
                    path = save_replay(pid, modname, "e2:" + o["name"], None, [o["model"]], {}, str(rep))
                    violations.append(path)
                else:
                    errors.append("E2 %s: sat model %s did not replay on the real code" % (o["name"], o["model"]))
            else:
                inconclusive.append("E2 %s: %s / cross %s" % (o["name"], o["result"], o["cross"]))

    # 5. verdict
    wall = time.time() - t0
    paths = sum(int(r.get("num_paths", 0)) for r in results if r)
    checks = sum(int(r.get("z3_checks", 0)) for r in results if r)
    zsec = sum(float(r.get("z3_seconds", 0)) for r in results if r)
    samples: List[Any] = []
    # spread the samples over the query groups and over the harness functions
    seen_fn: Dict[str, int] = {}
    spread = []
    for r in results:
        if r and (r.get("twin_call") or r.get("tally_samples")):
            k = seen_fn.get(r["fn"], 0)
            seen_fn[r["fn"]] = k + 1
            spread.append((k, r))
    spread.sort(key=lambda kr: kr[0])
    for _, r in spread[:2 * max(1, len(seen_fn))] + spread[len(spread) // 2:len(spread) // 2 + 3]:
        if r and len(samples) < 10:
            if r.get("twin_call"):
                samples.append({"group": r["name"], "shape": _jsonable(r.get("shape")),
                                "model_of_one_path": _jsonable(r["twin_call"][1])})
            elif r.get("tally_samples"):
                samples.append({"group": r["name"], "decision_vectors": _jsonable(r["tally_samples"])})
    for o in e2_results[:3]:
        samples.append({"z3_obligation": o["name"], "result": o["result"]})
    if not samples:
        samples = [{"note": "no group ran"}]
    meta = mod.meta(a.tier) if hasattr(mod, "meta") else {}
    n_e2_ok = sum(1 for o in e2_results if o["result"] == "unsat" and o["cross"] == "unsat")
    cov: Dict[str, Any] = {
        "states": max(1, paths + len(e2_results)),
        "transitions": max(1, checks + len(e2_results)),
        "traces_validated_against_impl": paths,
        "samples": samples,
        "exhaustive": not inconclusive and not errors and not a.only,
        "explanation": "states = CrossHair execution paths closed (each path is an execution of the real code of "
                       "/repo on a region of the input space) + direct z3 validity queries; transitions = z3 "
                       "check() calls made while deciding branch feasibility + direct queries",
        "engine": "crosshair-tool 0.0.110 (symbolic execution, z3 5.1.0) + direct z3 queries cross-checked on z3 4.8.12",
        "functions_encoded": fn_digest(meta.get("functions", [])),
        "bounds": meta.get("bounds", {}),
        "outside_claim": meta.get("outside", []),
        "stubs": meta.get("stubs", []),
        "query_groups": len(groups),
        "queries_confirmed": sum(1 for r in results if r and r["status"] == "confirmed"),
        "paths": paths,
        "solver_check_calls": checks,
        "solver_seconds": round(zsec + sum(o["seconds"] for o in e2_results), 2),
        "direct_z3_obligations": len(e2_results),
        "direct_z3_discharged": n_e2_ok,
        "decision_vectors_run": sum(int(r.get("tally", 0)) for r in results if r),
        "observed": _sum_observed(results),
        "selftest": _jsonable(selftest_info),
        "groups": [
            {k: _jsonable(r.get(k)) for k in ("name", "status", "num_paths", "z3_checks", "z3_seconds", "tally",
                                              "twin", "wall_s", "skipped_known") if k in r}
            for r in results if r
        ][:400],
        "direct_queries": e2_results[:200],
        "notes": notes,
        "known_findings_reported": known_lines,
    }
    ev = {
        "property_id": pid,
        "tier": a.tier,
        "seed": seed,
        "level": "model_checking",
        "coverage": cov,
        "assumptions": meta.get("assumptions", []),
        "wall_s": round(wall, 2),
        "violations": len(violations),
    }
    os.makedirs(EVIDENCE_DIR, exist_ok=True)
    with open(os.path.join(EVIDENCE_DIR, pid + ".json"), "w") as f:
        json.dump(ev, f, indent=1)

    for line in known_lines:
        print(line)
    for n in notes:
        print("note:", n)
    print("%s %s: %d groups, %d paths, %d z3 checks (%.1fs solver), %d direct queries, wall %.1fs" % (
        pid, a.tier, len(groups), paths, checks, zsec, len(e2_results), wall))
    if violations:
        for r in results:
            if r and r.get("replay", {}).get("reproduced"):
                print("counterexample in %s: %s" % (r["name"], r["message"][:600]))
        for p in violations:
            print("VIOLATION property=%s replay=%s" % (pid, p))
        return 1
    if errors:
        for e in errors:
            print("HARNESS-ERROR", e)
        return 3
    if inconclusive:
        for e in inconclusive:
            print("INCONCLUSIVE", e)
        return 2
    print("OK property=%s held on everything explored (bounded)" % pid)
    return exit_code


if __name__ == "__main__":
    sys.exit(main())
