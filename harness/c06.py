"""C06 - equivalence classes are exactly the strongly connected components.

Pattern D: a query group fixes the *kinds* of a history (T two-way edge, O one-way edge,
V mark verified, C cycle detection); the label arguments are the solver variables, forked
at the top of the harness; the real ``EquivalenceDB`` then runs on concrete labels.
No symmetry reduction on labels is applied: the union-find breaks weight ties by label
value, so relabelled histories are not equivalent executions.
"""
import itertools
import random

from comb_spec_searcher.equiv_db import EquivalenceDB

from vlib import core
from vlib.core import NoTracing, pick
from vlib.oracles import reach_matrix

L = 3
LAST_FAILURE = None


def on_shape(shape):
    global L
    L = int(shape["L"])


def _fail(msg):
    global LAST_FAILURE
    LAST_FAILURE = msg
    return False


def nvars(kinds: str) -> int:
    return sum(2 if k in "TO" else 1 if k == "V" else 0 for k in kinds)


def run_history(kinds: str, labs, L: int):
    """Run the real database; after every cycle detection compare all answers with the reference."""
    db = EquivalenceDB()
    edges = []
    marked = []
    k = 0
    hist = kinds if kinds.endswith("C") else kinds + "C"
    for op in hist:
        if op == "T":
            a, b = labs[k], labs[k + 1]
            k += 2
            db.add_two_way_edge(a, b)
            edges.append((a, b))
            edges.append((b, a))
        elif op == "O":
            a, b = labs[k], labs[k + 1]
            k += 2
            db.add_one_way_edge(a, b)
            edges.append((a, b))
        elif op == "V":
            a = labs[k]
            k += 1
            db.set_verified(a)
            marked.append(a)
        else:
            db.connect_cycles()
            r = reach_matrix(edges, L)
            es = set(edges)
            for i in range(L):
                for j in range(L):
                    same = r[i][j] and r[j][i]
                    if db.equivalent(i, j) != same:
                        return _fail("equivalent(%d,%d)=%r but reference %r; edges %r" % (i, j, not same, same, edges))
                    if same:
                        p = db.find_path(i, j)
                        if len(p) == 0 or p[0] != i or p[-1] != j:
                            return _fail("find_path(%d,%d)=%r has wrong end points" % (i, j, p))
                        for x, y in zip(p, p[1:]):
                            if (x, y) not in es:
                                return _fail("find_path(%d,%d)=%r uses unrecorded edge %r" % (i, j, p, (x, y)))
                want = any(r[i][v] and r[v][i] for v in marked)
                if db.is_verified(i) != want:
                    return _fail("is_verified(%d)=%r but reference %r; marked %r edges %r" % (i, not want, want, marked, edges))
                rep = db[i]
                if not (0 <= rep < L and r[i][rep] and r[rep][i]):
                    return _fail("db[%d]=%r is not a member of its class" % (i, rep))
    return True


def _body(vs) -> bool:
    labs = tuple(core.SHAPE.get("fixed") or ()) + tuple(pick(v, 0, L - 1) for v in vs)
    with NoTracing():
        core.tally(labs)
        return run_history(core.SHAPE["kinds"], labs, L)


def _inb(*vs) -> bool:
    for v in vs:
        if not (0 <= v < L):
            return False
    return True


def check_h1(a: int) -> bool:
    """
    pre: _inb(a)
    post: _
    """
    return core.final(_body((a,)))


def check_h2(a: int, b: int) -> bool:
    """
    pre: _inb(a, b)
    post: _
    """
    return core.final(_body((a, b)))


def check_h3(a: int, b: int, c: int) -> bool:
    """
    pre: _inb(a, b, c)
    post: _
    """
    return core.final(_body((a, b, c)))


def check_h4(a: int, b: int, c: int, d: int) -> bool:
    """
    pre: _inb(a, b, c, d)
    post: _
    """
    return core.final(_body((a, b, c, d)))


def check_h5(a: int, b: int, c: int, d: int, e: int) -> bool:
    """
    pre: _inb(a, b, c, d, e)
    post: _
    """
    return core.final(_body((a, b, c, d, e)))


def check_h6(a: int, b: int, c: int, d: int, e: int, f: int) -> bool:
    """
    pre: _inb(a, b, c, d, e, f)
    post: _
    """
    return core.final(_body((a, b, c, d, e, f)))


def check_h7(a: int, b: int, c: int, d: int, e: int, f: int, g: int) -> bool:
    """
    pre: _inb(a, b, c, d, e, f, g)
    post: _
    """
    return core.final(_body((a, b, c, d, e, f, g)))


def check_h8(a: int, b: int, c: int, d: int, e: int, f: int, g: int, h: int) -> bool:
    """
    pre: _inb(a, b, c, d, e, f, g, h)
    post: _
    """
    return core.final(_body((a, b, c, d, e, f, g, h)))


def _interleavings(ops: str, allow_connect: bool):
    """All ways of inserting an optional C after each op but the last (a final C is implicit)."""
    if not allow_connect or len(ops) <= 1:
        yield ops
        return
    for bits in itertools.product((0, 1), repeat=len(ops) - 1):
        s = ""
        for i, o in enumerate(ops):
            s += o
            if i < len(ops) - 1 and bits[i]:
                s += "C"
        yield s


def groups(tier: str):
    gs = []
    seen = set()

    def add(kinds, L, timeout):
        if (kinds, L) in seen:
            return
        seen.add((kinds, L))
        n = nvars(kinds)
        if n == 0 or n > 8:
            return
        # large label spaces are split over cores by fixing the first labels (every value is covered by some group)
        nfix = 0
        while L ** (n - nfix) > 800 and n - nfix > 1:
            nfix += 1
        for fixed in itertools.product(range(L), repeat=nfix):
            m = n - nfix
            gs.append({"name": "%s-L%d%s" % (kinds, L, "-" + "".join(map(str, fixed)) if fixed else ""),
                       "fn": "check_h%d" % m, "shape": {"kinds": kinds, "L": L, "fixed": list(fixed)},
                       "cond_timeout": timeout, "path_timeout": 30.0, "expect_space": L ** m, "weight": L ** m})

    # all histories of <= 3 operations over {T,O,V}, every placement of intermediate cycle detections, 3 labels
    for n in (1, 2, 3):
        for ops in itertools.product("TOV", repeat=n):
            for h in _interleavings("".join(ops), True):
                add(h, 3, 600.0)
    if tier == "quick":
        # four one-way edges (cycle detection is where the logic is), with and without a mark / intermediate detection
        for h in ("OOOO", "OOCOO", "VOOO", "OOOV"):
            add(h, 3, 900.0)
    else:
        for ops in itertools.product("TOV", repeat=4):
            s = "".join(ops)
            if nvars(s) > 8:
                continue
            add(s, 3, 1800.0)
            if s.count("O") >= 3:
                add(s[:2] + "C" + s[2:], 3, 1800.0)  # an intermediate cycle detection where cycles can exist
        for ops in itertools.product("TO", repeat=3):
            s = "".join(ops)
            add(s, 4, 1800.0)
            add(s + "V", 4, 1800.0)
            add("V" + s, 4, 1800.0)
            add(s[:2] + "C" + s[2:], 4, 1800.0)
    return gs


def selftest(tier):
    # the reference (Floyd-Warshall reachability) against a second, independent formulation (DFS) on random graphs
    rng = random.Random(7)
    for _ in range(500):
        n = rng.randint(1, 5)
        edges = [(rng.randrange(n), rng.randrange(n)) for _ in range(rng.randint(0, 8))]
        r = reach_matrix(edges, n)
        for i in range(n):
            seen = {i}
            st = [i]
            while st:
                x = st.pop()
                for a, b in edges:
                    if a == x and b not in seen:
                        seen.add(b)
                        st.append(b)
            assert [j in seen for j in range(n)] == r[i]
    # sanity: on a hand-made history the harness body accepts the pinned behaviour natively
    assert run_history("OOV", (0, 1, 1, 0, 1), 3)
    return {"reach_matrix_vs_dfs": 500}


def meta(tier):
    return {
        "functions": [EquivalenceDB.__getitem__, EquivalenceDB.get_one_way_vertices, EquivalenceDB.add_one_way_edge,
                      EquivalenceDB.connect_cycles, EquivalenceDB.add_two_way_edge, EquivalenceDB._add_edge,
                      EquivalenceDB._set_equivalent, EquivalenceDB.equivalent, EquivalenceDB.set_verified,
                      EquivalenceDB.is_verified, EquivalenceDB.find_path],
        "bounds": {
            "quick": "all histories of <=3 operations from {two-way edge, one-way edge, mark verified} with every placement of "
                     "intermediate cycle detections, all label arguments over 3 labels; plus four one-way edges (OOOO, OOCOO, "
                     "VOOO, OOOV); answers for all label pairs checked after every cycle detection",
            "thorough": "all histories of <=4 operations over 3 labels (with one intermediate cycle detection when >=3 one-way edges), 3 edges (+1 mark) over 4 labels",
        }[tier],
        "outside": ["longer histories, more labels", "queries made before a cycle detection (not promised by the property)"],
        "stubs": [],
        "assumptions": ["Floyd-Warshall mutual-reachability reference (validated against DFS)",
                        "decision-space tally: the number of distinct label vectors the real code was run with must equal L^n per group"],
    }
