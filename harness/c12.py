"""C12 - a constructed bijection is a size-preserving bijection with a true inverse.

Pattern D.  Solver variables: the two universes of a pair (indices into the REG table catalogue, or into a catalogue of
pattern sets of the repository's word example); the rule-database flavour forms the query group.  On every path both
specifications are found by the real searcher, the isomorphism test is run in both orders and on each specification
with itself, and a constructed bijection is applied to every brute-force object up to size N (image set = objects of
the second class, injective, inverse undoes it both ways), also after a JSON round trip of the bijection (C18(d)).
Plus two small traced groups: Bijection._perm_inv and Constructor.extra_params_equiv.
"""
import itertools
import json

from comb_spec_searcher import CombinatorialSpecificationSearcher
from comb_spec_searcher.exception import SpecificationNotFound
from comb_spec_searcher.isomorphism import Bijection, Isomorphism, ParseTreeMap
from comb_spec_searcher.strategies.constructor.base import Constructor
from comb_spec_searcher.strategies.rule import EquivalenceRule, ReverseRule

import sys

import os

_REPO = os.environ.get("VERIF_REPO") or "/repo"
if _REPO not in sys.path:
    sys.path.append(_REPO)  # the word example of the repository lives next to the package
import example  # noqa: E402

import harness.e2e as e2e
import universes.reg as R
from harness.e2e import Bad
from vlib import core
from vlib.core import NoTracing, pick
from vlib.shims import Clock, Tape, patched_env

LAST_FAILURE = None
N = 5
NT1 = 64
NT2 = 64

WORD_SETS = [("aa",), ("ab",), ("ba",), ("bb",), ("aaa",), ("aab",), ("aba",), ("abb",), ("aa", "bb"), ("ab", "ba"),
             ("abb", "bba"), ("aab", "bbb"), ("aa", "ba"), ("aaa", "baa"), ("aba", "bab"), ("aaaa", "abaa"), ("baba", "bbbb")]


def _rot(p):
    return "".join({"a": "b", "b": "c", "c": "a"}[ch] for ch in p)


# ternary alphabet: each pattern set with its two cyclic relabellings (child matchings that are 3-cycles, not involutions)
WORD3_SETS = []
for _ps in (("aa", "bbb"), ("abc",), ("ab", "ca"), ("aa", "bc")):
    for _k in range(3):
        WORD3_SETS.append(tuple(_ps))
        _ps = tuple(_rot(p) for p in _ps)


def word_truth(patterns, n, alphabet="ab"):
    return ["".join(w) for w in itertools.product(alphabet, repeat=n) if not any(p in "".join(w) for p in patterns)]


def universe(shape, idx):
    """-> (start class, pack, truth(n) -> list of words, make_obj)"""
    if shape["universe"] == "words3":
        pats = WORD3_SETS[idx]
        return (example.AvoidingWithPrefix("", list(pats), ["a", "b", "c"]), example.pack, lambda n: word_truth(pats, n, "abc"), example.Word)
    if shape["universe"] == "words":
        pats = WORD_SETS[idx]
        return (example.AvoidingWithPrefix("", list(pats), ["a", "b"]), example.pack, lambda n: word_truth(pats, n), example.Word)
    if shape["universe"] == "reg-mixed":
        # first index: a two-state table; second index: a two-state table on a doubled (redundant) automaton
        t = (e2e.tables(2) if shape["_side"] == 0 else e2e.tables("2d"))[idx]
    else:
        t = e2e.tables(shape["S"])[idx]
    popts = e2e.OPTSETS[shape.get("opt", "plain")][0]
    return (R.start_class(t), R.mkpack(popts), lambda n: R.words(t, n), R.W)


def find_spec(shape, idx):
    start, pack, truth, mk = universe(shape, idx)
    s = CombinatorialSpecificationSearcher(start, pack, ruledb=e2e.DBS[shape["db"]]())
    try:
        return s.auto_search(), truth, mk
    except SpecificationNotFound:
        return None, truth, mk


def iso_reference(s1, s2):
    """Independent isomorphism test: greatest fixed point of 'same kind of rule, and the non-empty children can be paired
    so that every pair is related'; equivalence rules are skipped on both sides; atoms are related iff they have the same size."""
    def resolve(spec, c):
        seen = set()
        while True:
            r = spec.rules_dict[c]
            if r.children and r.is_equivalence() and c not in seen:
                seen.add(c)
                c = r.children[0]
                continue
            return c, r

    def kids(r):
        return [ch for ch in r.children if not ch.is_empty()]

    def kind(r):
        if not r.children:
            return ("leaf",)
        con = r.constructor
        return (type(con).__name__,)

    nodes1 = {resolve(s1, c)[0] for c in s1.rules_dict}
    nodes2 = {resolve(s2, c)[0] for c in s2.rules_dict}
    rel = set()
    for a in nodes1:
        ra = s1.rules_dict[a]
        for b in nodes2:
            rb = s2.rules_dict[b]
            if kind(ra) != kind(rb) or len(kids(ra)) != len(kids(rb)):
                continue
            if not ra.children:
                if not (a.is_atom() and b.is_atom() and a.minimum_size_of_object() == b.minimum_size_of_object()):
                    continue
            else:
                if not ra.constructor.equiv(rb.constructor)[0]:
                    continue
            rel.add((a, b))
    changed = True
    while changed:
        changed = False
        for (a, b) in list(rel):
            ka = [resolve(s1, x)[0] for x in kids(s1.rules_dict[a])]
            kb = [resolve(s2, x)[0] for x in kids(s2.rules_dict[b])]
            ok = any(all((x, y) in rel for x, y in zip(ka, perm)) for perm in itertools.permutations(kb))
            if not ok:
                rel.discard((a, b))
                changed = True
    return (resolve(s1, s1.root)[0], resolve(s2, s2.root)[0]) in rel


def outcome(a, b):
    try:
        return bool(Isomorphism.check(a, b))
    except Exception as e:  # noqa: BLE001
        return "raises " + type(e).__name__


def has_nonequiv_reverse(spec):
    for r in spec.rules_dict.values():
        for x in (r.rules if hasattr(r, "rules") else [r]):
            if isinstance(x, ReverseRule) and not x.is_equivalence():
                return True
    return False


def check_bijection(bij, ta, tb, mka, mkb, what):
    for n in range(N + 1):
        wa, wb = ta(n), tb(n)
        try:
            img = [bij.map(mka(w)) for w in wa]
        except Exception as e:  # noqa: BLE001
            raise Bad("%s: map raised %s: %s at size %d (first class has %d objects, second %d)" % (what, type(e).__name__, e, n, len(wa), len(wb)))
        if any(len(v) != n for v in img):
            raise Bad("%s: map does not preserve size %d" % (what, n))
        if len(set(img)) != len(img):
            raise Bad("%s: map is not injective at size %d" % (what, n))
        if sorted(map(str, img)) != sorted(wb):
            raise Bad("%s: image at size %d is %r, the objects of the second class are %r" % (what, n, sorted(map(str, img)), sorted(wb)))
        for w, v in zip(wa, img):
            back = bij.inverse_map(v)
            if str(back) != w:
                raise Bad("%s: inverse_map(map(%r)) = %r" % (what, w, back))
        for v in wb:
            if str(bij.map(bij.inverse_map(mkb(v)))) != v:
                raise Bad("%s: map(inverse_map(%r)) != %r" % (what, v, v))


def scenario(shape, i, j):
    with patched_env(Clock(()), Tape(())):
        sa, ta, mka = find_spec(shape, i)
        sb, tb, mkb = find_spec(shape, j)
        if sa is None or sb is None:
            return True
        if not any(ta(n) for n in range(4)) or not any(tb(n) for n in range(4)):
            return True  # empty start classes are outside the property (the finder asserts non-emptiness)
        o_ab, o_ba = outcome(sa, sb), outcome(sb, sa)
        if o_ab != o_ba:
            raise Bad("isomorphism test is not symmetric: (a,b) -> %r, (b,a) -> %r" % (o_ab, o_ba))
        for name, s in (("first", sa), ("second", sb)):
            o = outcome(s, s)
            if o is not True:
                raise Bad("isomorphism test is not reflexive on the %s specification: %r" % (name, o))
        core.observe("pairs")
        ref = iso_reference(sa, sb)
        if isinstance(o_ab, bool) and o_ab != ref:
            raise Bad("isomorphism test answers %r, the reference (greatest fixed point of child pairings) says %r" % (o_ab, ref))
        bij = Bijection.construct(sa, sb) if o_ab is True else None
        if o_ab is not True and not isinstance(o_ab, str):
            if Bijection.construct(sa, sb) is not None:
                raise Bad("construct returns a bijection although the isomorphism test says no")
        if bij is None:
            return True
        core.observe("bijections constructed")
        if has_nonequiv_reverse(sa) or has_nonequiv_reverse(sb):
            core.observe("bijections between specifications without object maps (skipped)")
            return True
        check_bijection(bij, ta, tb, mka, mkb, "bijection")
        bij2 = Bijection.from_dict(json.loads(json.dumps(bij.to_jsonable())))
        check_bijection(bij2, ta, tb, mka, mkb, "bijection reloaded from JSON")
        for n in range(N + 1):
            for w in ta(n):
                if str(bij2.map(mka(w))) != str(bij.map(mka(w))):
                    raise Bad("reloaded bijection maps %r differently" % w)
        if any(len(set(c2 for (c1, c2) in bij._get_order if c1 == c)) > 1 for c in set(c1 for c1, _ in bij._get_order)):
            core.observe("bijections matching one class with several classes")
    return True


def _run(f, *a):
    global LAST_FAILURE
    try:
        return f(*a)
    except Bad as e:
        LAST_FAILURE = "%s | pair %r in %r" % (e, a[1:], a[0])
        return False


def on_shape(shape):
    global NT1, NT2
    if "universe" in shape:
        NT1 = shape["range1"][1]
        NT2 = shape["n2"]


def check_pair(i: int, j: int) -> bool:
    """
    pre: core.SHAPE["range1"][0] <= i < NT1 and 0 <= j < NT2
    post: _
    """
    sh = core.SHAPE
    a = pick(i, sh["range1"][0], sh["range1"][1] - 1)
    b = pick(j, 0, sh["n2"] - 1)
    with NoTracing():
        core.tally((a, b))
        return core.final(_run(scenario, sh, a, b))


def check_perm(n: int, p0: int, p1: int, p2: int, p3: int) -> bool:
    """
    pre: 1 <= n <= 4 and 0 <= p0 < n and 0 <= p1 < n and 0 <= p2 < n and 0 <= p3 < n
    post: _
    """
    p = [p0, p1, p2, p3][:n]
    if len(set(p)) != n:
        return core.final(True)
    inv = Bijection._perm_inv(p)
    ok = all(inv[p[i]] == i for i in range(n)) and Bijection._perm_inv(inv) == p
    return core.final(ok)


def check_equiv(a: int, b: int) -> bool:
    """
    pre: 0 <= a < 27 and 0 <= b < 27
    post: _
    """
    # parameter dictionaries over parent names k,l and child names x,y: each parent name maps to x, y or nothing
    def decode(v):
        d = {}
        for name in ("k", "l", "m"):
            c = v % 3
            v //= 3
            if c:
                d[name] = "xy"[c - 1]
        return d
    x, y = pick(a, 0, 26), pick(b, 0, 26)
    with NoTracing():
        core.tally((x, y))
        pa, pb = (decode(x), {}), (decode(y),)
        ab = Constructor.extra_params_equiv(pa, pb)
        ba = Constructor.extra_params_equiv(pb, pa)
        if ab != ba:
            return core.final(False)
        if not Constructor.extra_params_equiv(pa, pa):
            return core.final(False)
        # equivalent iff same multiset of "number of parent statistics per child statistic"
        def sig(d):
            return sorted(list(d.values()).count(v) for v in set(d.values()))
        return core.final(ab == (sig(decode(x)) == sig(decode(y))))


def groups(tier):
    gs = [{"name": "perm-inverse", "fn": "check_perm", "shape": {}, "cond_timeout": 600.0, "path_timeout": 60.0},
          {"name": "extra-params-equiv", "fn": "check_equiv", "shape": {}, "cond_timeout": 600.0, "path_timeout": 60.0, "expect_space": 729}]
    n2 = len(e2e.tables(2))
    dbs = ("base", "forest") if tier == "quick" else ("base", "forget", "forest")
    for db in dbs:
        for lo in range(0, n2, 4):
            gs.append({"name": "reg-S2-%s-t%d" % (db, lo), "fn": "check_pair",
                       "shape": {"universe": "reg", "S": 2, "db": db, "range1": [lo, lo + 4], "n2": n2},
                       "cond_timeout": 1800.0, "path_timeout": 120.0, "expect_space": 4 * n2, "weight": 4 * n2})
    nw = len(WORD_SETS)
    for lo in range(0, nw, 3):
        gs.append({"name": "words-base-t%d" % lo, "fn": "check_pair",
                   "shape": {"universe": "words", "db": "base", "range1": [lo, min(nw, lo + 3)], "n2": nw},
                   "cond_timeout": 1800.0, "path_timeout": 120.0, "expect_space": (min(nw, lo + 3) - lo) * nw, "weight": 3 * nw * 4})
    n3 = len(WORD3_SETS)
    for lo in range(0, n3, 2):
        gs.append({"name": "words3-base-t%d" % lo, "fn": "check_pair",
                   "shape": {"universe": "words3", "db": "base", "range1": [lo, lo + 2], "n2": n3},
                   "cond_timeout": 1800.0, "path_timeout": 120.0, "expect_space": 2 * n3, "weight": 2 * n3 * 8})
    if tier == "thorough":
        for opt in ("inferral", "symmetry"):
            for lo in range(0, n2, 4):
                gs.append({"name": "reg-S2-base-%s-t%d" % (opt, lo), "fn": "check_pair",
                           "shape": {"universe": "reg", "S": 2, "db": "base", "opt": opt, "range1": [lo, lo + 4], "n2": n2},
                           "cond_timeout": 1800.0, "path_timeout": 120.0, "expect_space": 4 * n2, "weight": 4 * n2})
    return gs


def selftest(tier):
    assert word_truth(("aa",), 3) == ["aba", "abb", "bab", "bba", "bbb"]
    return e2e.selftest_universe(tier)


def meta(tier):
    m = dict(e2e.COMMON_META)
    m.update({
        "functions": [Isomorphism.__init__, Isomorphism._are_isomorphic, Isomorphism._base_cases, Isomorphism._atom_match,
                      Isomorphism._constructor_match, ParseTreeMap.map_rec, Bijection.construct, Bijection.map, Bijection.inverse_map,
                      Bijection._perm_inv, Bijection.to_jsonable, Bijection.from_dict, Bijection._populate_json_map,
                      Constructor.extra_params_equiv],
        "bounds": "all ordered pairs of the 64 two-state REG tables (default and forest database; thorough: + memory-saving, inferral and "
                  "symmetry packs), of 17 binary pattern sets and of 12 ternary pattern sets (with cyclic relabellings) of the word example; objects up to size 5; permutations of length <=4; parameter "
                  "dictionaries over 3 parent and 2 child statistics",
    })
    m["outside"] = m["outside"] + ["NonBijectiveRule / index data", "specifications containing a non-equivalence reverse rule (no object maps by design)",
                                   "specifications of an empty start class"]
    return m
