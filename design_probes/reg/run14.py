import sys, logging, logzero, time, traceback
sys.path.insert(0, '/tmp/probe/reg')
from reg2 import *
from comb_spec_searcher.rule_db import RuleDB, RuleDBForgetStrategy
logzero.loglevel(logging.CRITICAL)
def trace(T, opts, dbc, nlevels=6):
    pk = mkpack(opts); db = dbc(); obs = []
    s = CombinatorialSpecificationSearcher(Lang(T, 0), pk, ruledb=db); s.status = lambda elaborate: ""
    orig_add = db.add
    def rec_add(start, ends, rule):
        r = orig_add(start, ends, rule)
        L = len(s.classdb.label_to_info)
        try: hs = db.has_specification() if s.__dict__.get('start_label') is not None else None
        except Exception as e: hs = 'EXC ' + type(e).__name__
        obs.append((tuple(db.is_verified(l) for l in range(L)), hs, frozenset(db)))
        return r
    db.add = rec_add
    try:
        for _ in range(nlevels): s.do_level()
    except Exception as e: obs.append(('end', type(e).__name__))
    # recompute strategies for stored keys of non-empty classes
    errs = []
    for key in list(db):
        parent = s.classdb.get_class(key[0])
        if parent.is_empty(): continue
        try:
            try: strat = db.rule_to_strategy[key]
            except KeyError: strat = db.eqv_rule_to_strategy[key]
            rule = strat(parent)
            ends = tuple(sorted(s.classdb.get_label(c) for c in rule.children if not (rule.possibly_empty and c.is_empty())))
            if ends != key[1]: errs.append(('wrong-rule', key, ends))
        except Exception as e: errs.append(('exc', key, type(e).__name__))
    return obs, errs
res = Counter(); t0 = time.time()
OPTS = [(), ('finite',), ('inferral',), ('symmetry',), ('factory',), ('inferral', 'symmetry', 'factory', 'finite')]
for T in tables(int(sys.argv[1])):
    for opts in OPTS:
        a, ea = trace(T, opts, RuleDB); b, eb = trace(T, opts, RuleDBForgetStrategy)
        k = ('same-obs' if a == b else 'DIFF-obs', 'rdb-errs' if ea else '', tuple(sorted(set((e[0], e[2]) if e[0] == 'exc' else (e[0],) for e in eb))))
        res[k] += 1
        if (a != b or ea) and res[k] == 1:
            print(k, T.key(), opts)
            for i, (x, y) in enumerate(zip(a, b)):
                if x != y: print(i, x, y); break
        if eb and res[k] == 1: print(k, T.key(), opts, eb[:2])
for k, v in sorted(res.items(), key=str): print(v, k)
print(time.time() - t0)
