"""C13 - the parallel specification finder is total and its output is a matched pair.

Pattern D.  Solver variables: the two universes of a pair (REG tables / pattern sets of the word example); query group =
finder variant x pack (plain, symmetry, inferral - the latter two put the start class into a non-trivial equivalence
class).  On every path two fresh real searchers are handed to the real finder; it must answer None or two
specifications, each passing the C01/C02 oracles for its own start class and isomorphic to each other, and never raise.
"""
from comb_spec_searcher import CombinatorialSpecificationSearcher
from comb_spec_searcher.bijection import EqPathParallelSpecFinder, ParallelInfo, ParallelSpecFinder
from comb_spec_searcher.isomorphism import Isomorphism

import harness.c01 as c01
import harness.c02 as c02
import harness.c12 as c12
import harness.e2e as e2e
import universes.reg as R
from harness.e2e import Bad, Ctx
from vlib import core
from vlib.core import NoTracing, pick
from vlib.shims import Clock, Tape, patched_env

LAST_FAILURE = None
NT1 = 64
NT2 = 64
FINDERS = {"plain": ParallelSpecFinder, "eqpath": EqPathParallelSpecFinder}


def scenario(shape, i, j):
    with patched_env(Clock(()), Tape(())):
        starts = []
        searchers = []
        for side, idx in enumerate((i, j)):
            start, pack, truth, mk = c12.universe(dict(shape, _side=side), idx)
            if not any(truth(n) for n in range(4)):
                return True  # empty start class: excluded (the finder asserts non-emptiness of every class it classifies)
            starts.append((start, pack, truth))
            searchers.append(CombinatorialSpecificationSearcher(start, pack))
        core.observe("pairs")
        try:
            res = FINDERS[shape["finder"]](searchers[0], searchers[1]).find()
        except Exception as e:  # noqa: BLE001
            import traceback
            where = traceback.format_exc().strip().splitlines()[-3:]
            raise Bad("find() raised %s: %s | %s" % (type(e).__name__, str(e)[:120], where))
        if res is None:
            core.observe("answers: nothing found")
            return True
        core.observe("answers: matched pair")
        s1, s2 = res
        for spec, (start, pack, truth) in zip((s1, s2), starts):
            if spec.root != start:
                raise Bad("returned specification is for %r, not for the start class %r" % (spec.root, start))
            for n in range(6):
                got = spec.get_terms(n)
                want = len(truth(n))
                if sum(got.values()) != want:
                    raise Bad("returned specification counts %d objects of size %d, brute force %d" % (sum(got.values()), n, want))
            if shape["universe"].startswith("reg"):
                ctx = Ctx()
                ctx.table, ctx.stats, ctx.start, ctx.pack, ctx.pack_opts, ctx.error, ctx.spec = start.t, "", start, pack, (), None, spec
                c02.assert_valid(ctx, spec)
        ok = Isomorphism.check(s1, s2)
        ref = c12.iso_reference(s1, s2)
        if ok is not True or not ref:
            raise Bad("the two returned specifications are not isomorphic (library test: %r, reference: %r)" % (ok, ref))
        # the purpose of the finder: a bijection can be constructed from its output and is a true bijection (C12)
        from comb_spec_searcher.isomorphism import Bijection
        bij = Bijection.construct(s1, s2)
        if bij is None:
            raise Bad("no bijection can be constructed from the finder's output")
        if not (c12.has_nonequiv_reverse(s1) or c12.has_nonequiv_reverse(s2)):
            mk = c12.universe(dict(shape, _side=0), i)[3]
            c12.check_bijection(bij, starts[0][2], starts[1][2], mk, mk, "bijection from the finder's output")
            core.observe("bijections from the finder's output checked")
    return True


def failure_kind(msg):
    if "not isomorphic" in msg:
        return "non-isomorphic"
    if "find() raised KeyError" in msg:
        return "KeyError"
    if "find() raised" in msg:
        return "raises"
    return "other"


def _run(f, shape, i, j):
    global LAST_FAILURE
    try:
        return f(shape, i, j)
    except Bad as e:
        env = {"universe": shape["universe"], "finder": shape["finder"], "opt": shape.get("opt", "-"), "i": i, "j": j,
               "kind": failure_kind(str(e))}
        if core.known("check_pair", env):
            return True  # an input listed in known_findings.json (open); reported separately as KNOWN-FINDING
        LAST_FAILURE = "%s | pair %r in %r" % (e, (i, j), shape)
        return False


def on_shape(shape):
    global NT1, NT2
    NT1 = shape["range1"][1]
    NT2 = shape["n2"]


def check_pair(i: int, j: int) -> bool:
    """
    pre: core.SHAPE["range1"][0] <= i < NT1 and 0 <= j < NT2
    post: _
    """
    sh = core.SHAPE
    a = pick(i, sh["range1"][0], sh["range1"][1] - 1)
    b = pick(j, 0, sh["n2"] - 1)
    with NoTracing():
        core.tally((a, b))
        return core.final(_run(scenario, sh, a, b))


def groups(tier):
    gs = []
    n2 = len(e2e.tables(2))
    combos = [("plain", "plain"), ("plain", "symmetry"), ("plain", "inferral"), ("eqpath", "plain"), ("eqpath", "inferral"),
              ("eqpath", "drop")]
    if tier == "thorough":
        combos += [("eqpath", "symmetry"), ("plain", "inferral-symmetry"), ("eqpath", "inferral-symmetry"), ("plain", "drop"), ("eqpath", "drop-two")]
    for finder, opt in combos:
        step = 8
        for lo in range(0, n2, step):
            gs.append({"name": "reg-%s-%s-t%d" % (finder, opt, lo), "fn": "check_pair",
                       "shape": {"universe": "reg", "S": 2, "db": "base", "opt": opt, "finder": finder, "range1": [lo, lo + step], "n2": n2},
                       "cond_timeout": 2400.0, "path_timeout": 120.0, "expect_space": step * n2, "weight": step * n2})
    # several rules per class (two expansion strategies) and a redundant automaton on the second side: one label of the
    # first universe matches several labels of the second, and the second search backtracks over partial successes
    for finder in ("plain", "eqpath"):
        for lo in range(0, n2, 8):
            gs.append({"name": "mixed-%s-two-t%d" % (finder, lo), "fn": "check_pair",
                       "shape": {"universe": "reg-mixed", "S": 2, "db": "base", "opt": "two", "finder": finder, "range1": [lo, lo + 8], "n2": n2},
                       "cond_timeout": 2400.0, "path_timeout": 120.0, "expect_space": 8 * n2, "weight": 8 * n2 * 3})
    nw = len(c12.WORD_SETS)
    for finder in ("plain", "eqpath"):
        for lo in range(0, nw, 3):
            gs.append({"name": "words-%s-t%d" % (finder, lo), "fn": "check_pair",
                       "shape": {"universe": "words", "db": "base", "finder": finder, "range1": [lo, min(nw, lo + 3)], "n2": nw},
                       "cond_timeout": 2400.0, "path_timeout": 120.0, "expect_space": (min(nw, lo + 3) - lo) * nw, "weight": 3 * nw * 4})
    return gs


def selftest(tier):
    return e2e.selftest_universe(tier)


def meta(tier):
    from comb_spec_searcher.specification_extrator import SpecificationRuleExtractor
    m = dict(e2e.COMMON_META)
    m.update({
        "functions": [ParallelInfo.__init__, ParallelInfo._construct_eq_label_rules, ParallelSpecFinder.find, ParallelSpecFinder._find,
                      ParallelSpecFinder._matching_info_to_specs, ParallelSpecFinder._search_matching_info, ParallelSpecFinder._create_spec,
                      ParallelSpecFinder._create_tree, EqPathParallelSpecFinder._search_matching_info,
                      EqPathParallelSpecFinder._eq_path_matches, SpecificationRuleExtractor.__init__],
        "bounds": "all ordered pairs of the 64 two-state REG tables with a non-empty language x {both finder variants} x packs {plain, symmetry, "
                  "inferral} (5 combinations; thorough 8), all pairs (two-state table, two-state table on a doubled automaton) with two expansion "
                  "strategies per class x both finders, and all ordered pairs of 17 pattern sets of the word example x both finders",
    })
    m["outside"] = m["outside"] + ["empty start classes (not a well-formed input of the finder: it asserts non-emptiness)",
                                   "packs whose verification strategies verify non-atoms (the finder rejects them by design)"]
    return m
