from typing import List
import comb_spec_searcher.strategies.constructor.disjoint as dj
from comb_spec_searcher.strategies.constructor.disjoint import DisjointUnion

class C:
    extra_parameters = ()
DRAW = [0]
def _randint(a, b):
    r = DRAW[0]
    assert a <= r <= b
    return r
dj.randint = _randint

def check(c0: int, c1: int, c2: int, r: int) -> bool:
    """
    pre: c0 >= 0 and c1 >= 0 and c2 >= 0 and 1 <= r <= c0 + c1 + c2
    post: _
    """
    du = DisjointUnion(C(), (C(), C(), C()))
    counts = [c0, c1, c2]
    DRAW[0] = r
    subrecs = tuple((lambda i: (lambda n: counts[i]))(i) for i in range(3))
    samplers = tuple((lambda i: (lambda n: ('obj', i)))(i) for i in range(3))
    res = du.random_sample_sub_objects(c0 + c1 + c2, samplers, subrecs, 4)
    idx = [i for i, o in enumerate(res) if o is not None]
    if len(idx) != 1: return False
    i = idx[0]
    lo = sum(counts[:i])
    return lo < r <= lo + counts[i] and res[i] == ('obj', i)
