#!/bin/bash
# Runs every seeded change against the quick check of its own property (and of the extra checks listed below), one after the
# other (each check uses all cores and the patch is applied to /repo itself, so nothing else may run meanwhile).
# Result: seeded/MATRIX.tsv   (mutant, check, exit code, seconds)
cd /verif
declare -A EXTRA=( [C01-m1]="C05" [C01-m2]="C09" [C01-m3]="C10" [C02-m1]="C06 C05" [C02-m2]="C10" [C18-m1]="C12" [C11-m2]="C01 C02" [C07-m1]="C19" [C07-m2]="C09" [C03-m1]="C11" [C14-m2]="C05" )
pattern=${1:-C*-m*}
out=${2:-seeded/MATRIX.tsv}
: > $out
EXTRA[C01-r2m1]="C09"; EXTRA[C01-r2m2]="C06 C05"; EXTRA[C09-r2m1]="C01 C11"; EXTRA[C09-r2m2]="C01"; EXTRA[C05-r2m3]="C01"; EXTRA[C19-r2m2]="C11"
for d in seeded/$pattern/; do
  m=$(basename $d); pid=${m%%-*}
  for chk in $pid ${EXTRA[$m]:-}; do
    t0=$(date +%s)
    res=$(tools/try_mutant.sh /verif/$d/patch.diff quick $chk 2>&1 | tail -1)
    t1=$(date +%s)
    echo -e "$m\t$chk\t$res\t$((t1-t0))s" | tee -a $out
  done
done
