"""C14 - default and memory-saving rule databases are observationally identical.

End-to-end, pattern D on REG (harness/e2e.py).  The rule database of the searcher under test is wrapped so that every
insertion of the whole run is also fed, in the same order, to two mirror databases linked to the same searcher:
a RuleDB and a RuleDBForgetStrategy.  After *every* insertion the two mirrors are compared (verified labels,
has_specification, stored rules, membership of the inserted key and its perturbations); at the end of the run membership
is probed for a grid of stored and non-stored keys and every stored strategy is re-applied.
"""
import itertools

from comb_spec_searcher.rule_db.base import RuleDB, RuleDBBase
from comb_spec_searcher.rule_db.forget import RecomputingDict, RuleDBForgetStrategy

import harness.c02 as c02
import harness.e2e as e2e
from harness.e2e import Bad
from vlib import core

LAST_FAILURE = None


def prepare(ctx):
    ctx.mirror_a = RuleDB()
    ctx.mirror_b = RuleDBForgetStrategy()
    ctx.n_adds = 0
    ctx.lock_fail = None
    orig_add = ctx.db.add

    def add(start, ends, rule):
        orig_add(start, ends, rule)
        if ctx.lock_fail is not None:
            return
        a, b = ctx.mirror_a, ctx.mirror_b
        if a._searcher is None:
            a.link_searcher(ctx.db.searcher)
            b.link_searcher(ctx.db.searcher)
        a.add(start, ends, rule)
        b.add(start, ends, rule)
        ctx.n_adds += 1
        try:
            compare(ctx, a, b, (start, tuple(ends)))
        except Bad as e:
            ctx.lock_fail = "after insertion %d (%r -> %r): %s" % (ctx.n_adds, start, ends, e)

    ctx.db.add = add


def member(db, key):
    """Membership in the stored set, by the public iteration."""
    return key in set(db)


def compare(ctx, a, b, last_key):
    labels = range(len(ctx.classdb.comb_class_list))
    sa, sb = set(a), set(b)
    if sa != sb:
        raise Bad("stored rules differ: only default %r, only memory-saving %r" % (sorted(sa - sb), sorted(sb - sa)))
    ha, hb = a.has_specification(), b.has_specification()
    if ha != hb:
        raise Bad("has_specification: default %r, memory-saving %r" % (ha, hb))
    va = [l for l in labels if a.is_verified(l)]
    vb = [l for l in labels if b.is_verified(l)]
    if va != vb:
        raise Bad("verified labels: default %r, memory-saving %r" % (va, vb))
    start, ends = last_key
    probes = {(start, tuple(sorted(ends))), (start, ends), (start, ends[::-1]), (start, ends + (start,)), (start, ())}
    if ends:
        probes.add((ends[0], (start,)))
        probes.add((start, ends[:-1]))
    for s, e in probes:
        ca, cb = a.contains(s, e), b.contains(s, e)
        want = (s, tuple(sorted(e))) in sa
        if ca != want or cb != want:
            raise Bad("contains(%r, %r): default %r, memory-saving %r, stored %r" % (s, e, ca, cb, want))


def assert_identical(ctx):
    if ctx.lock_fail is not None:
        raise Bad(ctx.lock_fail)
    if ctx.n_adds == 0:
        return
    a, b = ctx.mirror_a, ctx.mirror_b
    cdb = ctx.classdb
    L = len(cdb.comb_class_list)
    stored = set(a)
    grid = list(range(-1, min(L, 5) + 1))
    for s in grid:
        for k in (0, 1, 2):
            for e in itertools.product(grid, repeat=k):
                ca, cb = a.contains(s, e), b.contains(s, e)
                want = (s, tuple(sorted(e))) in stored
                if ca != want or cb != want:
                    raise Bad("contains(%r, %r): default %r, memory-saving %r, stored %r" % (s, e, ca, cb, want))
    for key in sorted(stored):
        start, ends = key
        parent = cdb.get_class(start)
        if c02.truly_empty(parent):
            continue
        for name, db in (("default", a), ("memory-saving", b)):
            try:
                strat = db.rule_to_strategy[key]
            except KeyError:
                strat = db.eqv_rule_to_strategy[key]
            rule = strat(parent)
            kept = tuple(sorted(cdb.get_label(ch) for ch in rule.children if not (rule.possibly_empty and c02.truly_empty(ch))))
            if (cdb.get_label(rule.comb_class), kept) != key:
                raise Bad("%s database: the strategy stored for %r re-applied gives %r -> %r" % (name, key, start, kept))
    core.observe("lock-step insertions", ctx.n_adds)
    core.observe("stored keys re-applied", len(stored))


ASSERT = assert_identical
PREPARE = prepare

# >>> e2e wrappers
# ---- end-to-end wrappers (same text in every module that uses harness/e2e.py; ASSERT / PREPARE are module globals)
def check_opt(t: int) -> bool:
    """
    pre: e2e.tin(t)
    post: _
    """
    return core.final(e2e.body_opt(t, ASSERT, PREPARE))


def check_sched(t: int, j: int) -> bool:
    """
    pre: e2e.tin(t) and 0 <= j <= e2e.NJ
    post: _
    """
    return core.final(e2e.body_sched(t, j, ASSERT, PREPARE))


def check_sched2(t: int, j0: int, j1: int) -> bool:
    """
    pre: e2e.tin(t) and 0 <= j0 < j1 <= e2e.NJ
    post: _
    """
    return core.final(e2e.body_sched2(t, j0, j1, ASSERT, PREPARE))


def check_rng(t: int, d0: int, d1: int, d2: int) -> bool:
    """
    pre: e2e.tin(t) and 0 <= d0 <= 2 and 0 <= d1 <= 2 and 0 <= d2 <= 2
    post: _
    """
    return core.final(e2e.body_rng(t, (d0, d1, d2), ASSERT, PREPARE))
# <<< e2e wrappers


def on_shape(shape):
    e2e.on_shape(shape)


def groups(tier):
    opts = ["plain", "inferral", "symmetry", "factory", "factory2", "finite", "finite-ev", "k", "ku", "iterative", "oneway", "two", "drop"]
    if tier == "thorough":
        opts += ["inferral-symmetry", "inferral-factory-finite", "k-inferral", "ku-factory", "kk"]
    return e2e.std_groups(tier, dbs=("base",), opts=opts, rng=False)


def selftest(tier):
    return e2e.selftest_universe(tier)


def meta(tier):
    m = dict(e2e.COMMON_META)
    m.update({
        "functions": [RuleDBBase.add, RuleDBBase._clean_labels, RuleDBBase.contains, RuleDBBase.__iter__, RuleDBBase.is_verified,
                      RuleDBBase.has_specification, RecomputingDict.__getitem__, RecomputingDict.__setitem__, RecomputingDict.__delitem__,
                      RecomputingDict.__contains__, RuleDBForgetStrategy.link_searcher],
        "bounds": "rule sequences of real searches: all 64 two-state tables x the option sets listed below (incl. verification strategies applying to "
                  "classes other strategies also expand, inferral, symmetries, factories, statistics), late clock readings; comparison after "
                  "every insertion; membership grid over labels -1..5 with 0-2 children; every stored key of a non-empty class re-applied",
    })
    m["stubs"] = m["stubs"] + ["the searcher's rule database is wrapped to mirror every insertion into a RuleDB and a RuleDBForgetStrategy"]
    m["bounds"] = str(m.get("bounds", "")) + " || end-to-end groups of this run: " + e2e.describe_groups(groups(tier))
    return m
