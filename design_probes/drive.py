import sys, time, importlib
from crosshair.core_and_libs import analyze_function, run_checkables
from crosshair.options import AnalysisOptionSet
import collections
mod = importlib.import_module(sys.argv[1]); fn = getattr(mod, sys.argv[2])
stats = collections.Counter()
opts = AnalysisOptionSet(per_condition_timeout=float(sys.argv[3]), per_path_timeout=30.0, report_all=True, stats=stats)
t=time.time()
msgs = run_checkables(analyze_function(fn, opts))
print(time.time()-t, [(m.state, m.message) for m in msgs])
print(dict(stats))
