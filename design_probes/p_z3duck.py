import z3, time
from comb_spec_searcher.strategies.strategy import CartesianProductStrategy
from comb_spec_searcher.strategies.rule import Rule, ReverseRule
from comb_spec_searcher.strategies.constructor import Quotient

class K:
    extra_parameters = ()
    def __init__(self, i, m): self.i = i; self.m = m
    def minimum_size_of_object(self): return self.m
    def is_atom(self): return False
    def __eq__(self, o): return self.i == o.i
    def __hash__(self): return self.i
class P(CartesianProductStrategy):
    def __init__(self, ch): super().__init__(); self.ch = ch
    def decomposition_function(self, c): return self.ch
    def formal_step(self): return "p"
    def backward_map(self, *a): pass
    def forward_map(self, *a): pass
    @classmethod
    def from_dict(cls, d): pass
k = 3
m = [z3.Int(f"m{i}") for i in range(k)]
n = z3.Int("n")
ch = tuple(K(i + 1, m[i]) for i in range(k))
par = K(0, z3.Sum(m))
rule = P(ch)(par)
sh = rule.shifts()
print("shifts", sh)
s = z3.Solver()
for mi in m: s.add(mi >= 0)
t = time.time()
for j in range(k):
    rr = rule.to_reverse_rule(j)
    rsh = rr.shifts()
    q = rr.constructor
    print(j, rsh, q._parent_shift)
    # claims: q._parent_shift == sh[j]; rsh[0] == -sh[j]; reading parent at n + parent_shift <= n - rsh[0]
    others = [i for i in range(k) if i != j]
    claim = z3.And(q._parent_shift == sh[j], rsh[0] == -sh[j], n + q._parent_shift <= n - rsh[0])
    # sibling i read at most N - sum_{l != i} m_l  with N = n + parent_shift  ==> <= n - rsh[pos]
    for pos, i in enumerate(others, start=1):
        N = n + q._parent_shift
        ub = N - (z3.Sum(m) - m[i])
        claim = z3.And(claim, ub <= n - rsh[pos])
    s.push(); s.add(z3.Not(claim)); print(j, s.check()); s.pop()
print(time.time() - t)
