"""C03 - forest productivity detection equals the least fixed point, in any insert order.

Pattern T: the *shape* (ordered list of (parent, children)) is concrete, the shifts are
solver variables that stay symbolic while the real ``TableMethod`` runs under CrossHair's
tracer.  After every insertion the real table is compared with the reference least fixed
point of the prefix.  All insertion orders of a rule multiset are different shapes of the
catalogue, each compared with the same order-free reference, hence order independence.
"""
import itertools
import random
from typing import Dict, List, Optional, Tuple

from comb_spec_searcher.rule_db.forest import DefaultList, Function, TableMethod
from comb_spec_searcher.typing import ForestRuleKey, RuleBucket

from vlib import core
from vlib.oracles import lfp

SB = 2  # bound on |shift| of the current group (set from the shape)
NSYM = 0
LAST_FAILURE = None


def on_shape(shape):
    global SB, NSYM
    if "db" in shape:
        e2e.on_shape(shape)
        return
    SB = int(shape["S"])
    NSYM = sum(len(ch) for _, ch in shape["rules"])


def _fail(msg):
    global LAST_FAILURE
    LAST_FAILURE = msg
    return False


def _body(sym) -> bool:
    shape = core.SHAPE
    rules_shape = shape["rules"]
    base = shape.get("base")  # optional concrete centre for each shift (test universes)
    S = SB + (max([abs(b) for b in base]) if base else 0)
    S = max(S, 1)
    labels = sorted({p for p, _ in rules_shape} | {c for _, ch in rules_shape for c in ch})
    tm = TableMethod()
    rules = []
    k = 0
    prev: Dict[int, Optional[int]] = {}
    for p, ch in rules_shape:
        sh = []
        for _ in ch:
            sh.append(sym[k] + (base[k] if base else 0))
            k += 1
        rules.append((p, tuple(ch), tuple(sh)))
        tm.add_rule_key(ForestRuleKey(p, tuple(ch), tuple(sh), RuleBucket.NORMAL))
        ref = lfp(rules, labels, S)
        got = tm.function
        if got != ref:
            return _fail("function %r != least fixed point %r after %r" % (got, ref, rules))
        for l in labels:
            if tm.is_pumping(l) != (l in ref and ref[l] is None):
                return _fail("is_pumping(%d) wrong after %r" % (l, rules))
        inf = {l for l in labels if l in ref and ref[l] is None}
        want = [(q, c) for (q, c, _) in rules if q in inf and all(x in inf for x in c)]
        have = [(fk.parent, tuple(fk.children)) for fk in tm.pumping_subuniverse()]
        if sorted(want) != sorted(have):
            return _fail("pumping_subuniverse %r != %r" % (have, want))
        if sorted(tm.stable_subset()) != sorted(inf):
            return _fail("stable_subset")
        for l in labels:  # monotone growth
            a, b = prev.get(l, 0), ref.get(l, 0)
            if a is None and b is not None:
                return _fail("value of %d shrank" % l)
            if a is not None and b is not None and b < a:
                return _fail("value of %d shrank" % l)
        prev = ref
    return True


def check_tm0() -> bool:
    """
    post: _
    """
    return core.final(_body(()))


def check_tm1(s0: int) -> bool:
    """
    pre: -SB <= s0 <= SB
    post: _
    """
    return core.final(_body((s0,)))


def check_tm2(s0: int, s1: int) -> bool:
    """
    pre: -SB <= s0 <= SB and -SB <= s1 <= SB
    post: _
    """
    return core.final(_body((s0, s1)))


def check_tm3(s0: int, s1: int, s2: int) -> bool:
    """
    pre: -SB <= s0 <= SB and -SB <= s1 <= SB and -SB <= s2 <= SB
    post: _
    """
    return core.final(_body((s0, s1, s2)))


def check_tm4(s0: int, s1: int, s2: int, s3: int) -> bool:
    """
    pre: -SB <= s0 <= SB and -SB <= s1 <= SB and -SB <= s2 <= SB and -SB <= s3 <= SB
    post: _
    """
    return core.final(_body((s0, s1, s2, s3)))


def check_tm5(s0: int, s1: int, s2: int, s3: int, s4: int) -> bool:
    """
    pre: -SB <= s0 <= SB and -SB <= s1 <= SB and -SB <= s2 <= SB and -SB <= s3 <= SB and -SB <= s4 <= SB
    post: _
    """
    return core.final(_body((s0, s1, s2, s3, s4)))


def check_tm6(s0: int, s1: int, s2: int, s3: int, s4: int, s5: int) -> bool:
    """
    pre: -SB <= s0 <= SB and -SB <= s1 <= SB and -SB <= s2 <= SB and -SB <= s3 <= SB and -SB <= s4 <= SB and -SB <= s5 <= SB
    post: _
    """
    return core.final(_body((s0, s1, s2, s3, s4, s5)))


# ------------------------------------------------------------------ key sequences recorded by real searches (forest database)
import harness.e2e as e2e  # noqa: E402
from harness.e2e import Bad  # noqa: E402


def prepare_forest(ctx):
    """Wrap TableMethod.add_rule_key of the searcher's forest database: after every inserted key the table must equal the
    reference least fixed point of all keys inserted so far (forward keys, reverse keys with negative shifts, empty rules)."""
    tm = ctx.db.table_method
    ctx.keys = []
    ctx.tm_fail = None
    ctx.prev = {}
    orig = tm.add_rule_key

    def add_rule_key(rk):
        orig(rk)
        if ctx.tm_fail is not None:
            return
        ctx.keys.append((rk.parent, tuple(rk.children), tuple(rk.shifts)))
        S = max([1] + [abs(x) for _, _, sh in ctx.keys for x in sh])
        labels = sorted({p for p, _, _ in ctx.keys} | {c for _, ch, _ in ctx.keys for c in ch})
        ref = lfp(ctx.keys, labels, S)
        if tm.function != ref:
            ctx.tm_fail = "after key %d %r: function %r, least fixed point %r" % (len(ctx.keys), ctx.keys[-1], tm.function, ref)
            return
        for l in labels:
            a, b = ctx.prev.get(l, 0), ref.get(l, 0)
            if (a is None and b is not None) or (a is not None and b is not None and b < a):
                ctx.tm_fail = "value of class %d shrank after key %d" % (l, len(ctx.keys))
        ctx.prev = ref

    tm.add_rule_key = add_rule_key


def assert_forest(ctx):
    if ctx.tm_fail is not None:
        raise Bad(ctx.tm_fail)
    core.observe("forest keys checked", len(ctx.keys))
    if any(x < 0 for _, _, sh in ctx.keys for x in sh):
        core.observe("runs with negative shifts (reverse keys)")
    s = ctx.searcher
    want = lfp(ctx.keys, [s.start_label], max([1] + [abs(x) for _, _, sh in ctx.keys for x in sh])).get(s.start_label, 0) is None
    if s.ruledb.has_specification() != want:
        raise Bad("forest database reports has_specification=%r, the least fixed point says %r" % (s.ruledb.has_specification(), want))
    if (ctx.spec is not None) != want and not ctx.clock.late_at:
        raise Bad("search ended %s a specification although the start class is %spumping" % ("with" if ctx.spec else "without", "" if want else "not "))


ASSERT = assert_forest
PREPARE = prepare_forest

# >>> e2e wrappers
# ---- end-to-end wrappers (same text in every module that uses harness/e2e.py; ASSERT / PREPARE are module globals)
def check_opt(t: int) -> bool:
    """
    pre: e2e.tin(t)
    post: _
    """
    return core.final(e2e.body_opt(t, ASSERT, PREPARE))


def check_sched(t: int, j: int) -> bool:
    """
    pre: e2e.tin(t) and 0 <= j <= e2e.NJ
    post: _
    """
    return core.final(e2e.body_sched(t, j, ASSERT, PREPARE))


def check_sched2(t: int, j0: int, j1: int) -> bool:
    """
    pre: e2e.tin(t) and 0 <= j0 < j1 <= e2e.NJ
    post: _
    """
    return core.final(e2e.body_sched2(t, j0, j1, ASSERT, PREPARE))


def check_rng(t: int, d0: int, d1: int, d2: int) -> bool:
    """
    pre: e2e.tin(t) and 0 <= d0 <= 2 and 0 <= d1 <= 2 and 0 <= d2 <= 2
    post: _
    """
    return core.final(e2e.body_rng(t, (d0, d1, d2), ASSERT, PREPARE))
# <<< e2e wrappers


# ------------------------------------------------------------------ catalogue
def shapes(L: int, R: int, maxar: int) -> List[Tuple[Tuple[int, Tuple[int, ...]], ...]]:
    """Ordered rule lists over labels 0..L-1 with 1..R rules of arity <= maxar, one
    representative per class of label renamings (deterministic order)."""
    rules = []
    for p in range(L):
        for k in range(maxar + 1):
            for ch in itertools.product(range(L), repeat=k):
                rules.append((p, ch))
    seen = set()
    out = []
    perms = list(itertools.permutations(range(L)))
    for r in range(1, R + 1):
        for combo in itertools.product(rules, repeat=r):
            best = None
            for perm in perms:
                c = tuple((perm[p], tuple(perm[x] for x in ch)) for p, ch in combo)
                if best is None or c < best:
                    best = c
            if best in seen:
                continue
            seen.add(best)
            out.append(best)
    return out


def _nsym(sh) -> int:
    return sum(len(ch) for _, ch in sh)


# the four universes of tests/test_forest.py (labels renumbered densely), typed-in shifts as base
TEST_UNIVERSES = {
    "t132": [(0, (1, 2), (0, 0)), (1, (), ()), (2, (3,), (0,)), (3, (4,), (0,)), (4, (5, 0, 0), (0, 1, 1)),
             (5, (), ()), (2, (6,), (2,))],
    "t132prog": [(0, (1, 2), (0, 0)), (1, (), ()), (2, (3,), (0,)), (3, (4,), (0,)), (5, (), ()),
                 (2, (6,), (-2,)), (2, (7,), (2,)), (4, (5, 0, 0), (0, 1, 1))],
    "tnotpump": [(0, (1, 2), (0, 0)), (5, (), ()), (2, (3,), (0,)), (3, (4,), (0,)), (4, (5, 0, 0), (0, 1, 1))],
}


def groups(tier: str):
    gs = []

    def add(name, rules, S, base=None, timeout=240.0, weight=0):
        n = _nsym(rules)
        gs.append({
            "name": name, "fn": "check_tm%d" % n,
            "shape": {"rules": [[p, list(ch)] for p, ch in rules], "S": S, "base": base},
            "cond_timeout": timeout, "path_timeout": 60.0, "weight": weight or n,
        })

    cat22 = shapes(2, 2, 2)
    for i, sh in enumerate(cat22):
        add("L2R2a2-%03d" % i, sh, 2)
    # large shifts on the small shapes: a later rule whose shift exceeds the gap size in force (needs |shift| up to 4)
    for i, sh in enumerate(cat22):
        if 1 <= _nsym(sh) <= 2 and len(sh) == 2:
            add("L2R2S4-%03d" % i, sh, 4)
    cat23 = shapes(2, 3, 2)
    sel = [sh for sh in cat23 if len(sh) == 3 and _nsym(sh) <= 3 and any(len(ch) == 0 for _, ch in sh)]
    if tier == "quick":
        for i, sh in enumerate(sel):
            if i % 2 == 0:  # every second shape of this family in the quick tier (all of them in the thorough tier)
                add("L2R3z-%03d" % i, sh, 2)
    else:
        for i, sh in enumerate(cat23):
            if len(sh) == 3 and _nsym(sh) <= 4:
                add("L2R3-%04d" % i, sh, 2, timeout=600.0)
        cat33 = [sh for sh in shapes(3, 3, 2) if len(sh) == 3 and _nsym(sh) <= 3
                 and len({p for p, _ in sh} | {c for _, ch in sh for c in ch}) == 3]
        for i, sh in enumerate(cat33):
            add("L3R3-%04d" % i, sh, 2, timeout=600.0)
        for i, sh in enumerate(cat22):
            if 1 <= _nsym(sh) <= 4:
                add("L2R2S3-%03d" % i, sh, 3, timeout=600.0)
    opts = ["plain", "inferral", "symmetry", "factory", "factory2", "finite-ev", "k", "two", "oneway"]
    if tier == "thorough":
        opts += ["inferral-factory-finite", "two-k", "ku-factory", "kk"]
    rec = e2e.std_groups(tier, dbs=("forest",), opts=opts, sched=False, rng=False, S3=(tier == "thorough"))
    return gs + _window_groups(tier) + rec


# Window groups: whole test universe, all shifts concrete except a window of `width` shifts which are
# base-1 .. base+1.  Implemented by a separate body taking the window variables.
WIN = None


def _win_body(sym) -> bool:
    shape = core.SHAPE
    u = shape["universe"]
    start = shape["start"]
    flat_i = 0
    rules_shape = []
    base = []
    full = []
    for p, ch, sh in u:
        for s in sh:
            j = flat_i - start
            full.append(s + (sym[j] if 0 <= j < len(sym) else 0))
            flat_i += 1
        rules_shape.append((p, tuple(ch)))
    # reuse _body with a fully expanded symbolic vector
    saved = core.SHAPE
    try:
        core.SHAPE = {"rules": rules_shape, "S": 1 + max([abs(s) for _, _, sh in u for s in sh] + [0]), "base": None}
        global SB
        old = SB
        SB = core.SHAPE["S"]
        try:
            return _body(tuple(full))
        finally:
            SB = old
    finally:
        core.SHAPE = saved


def check_win3(w0: int, w1: int, w2: int) -> bool:
    """
    pre: -1 <= w0 <= 1 and -1 <= w1 <= 1 and -1 <= w2 <= 1
    post: _
    """
    return core.final(_win_body((w0, w1, w2)))


def check_win2(w0: int, w1: int) -> bool:
    """
    pre: -1 <= w0 <= 1 and -1 <= w1 <= 1
    post: _
    """
    return core.final(_win_body((w0, w1)))


def check_win1(w0: int) -> bool:
    """
    pre: -1 <= w0 <= 1
    post: _
    """
    return core.final(_win_body((w0,)))


def _window_groups(tier):
    gs = []
    for name, u in TEST_UNIVERSES.items():
        n = sum(len(sh) for _, _, sh in u)
        width = 3
        starts = range(0, n, width) if tier == "quick" else range(0, n - 1)
        for st in starts:
            w = min(width, n - st)
            gs.append({
                "name": "%s-win%d" % (name, st), "fn": "check_win%d" % w,
                "shape": {"universe": [[p, list(ch), list(sh)] for p, ch, sh in u], "start": st, "S": 1, "rules": []},
                "cond_timeout": 600.0, "path_timeout": 120.0, "weight": 10,
            })
    return gs


# ------------------------------------------------------------------ oracle validation
def selftest(tier):
    e2e.selftest_universe(tier)
    # 1. typed-in expectations of tests/test_forest.py
    u = [(p, ch, sh) for p, ch, sh in TEST_UNIVERSES["t132"]]
    assert lfp(u, range(7), 2) == {i: None for i in range(6)}
    u = TEST_UNIVERSES["tnotpump"]
    assert lfp(u, range(6), 1) == {2: 1, 3: 1, 4: 1, 5: None}
    prog = TEST_UNIVERSES["t132prog"]
    expect = [{}, {1: None}, {1: None}, {1: None}, {1: None, 5: None}, {1: None, 5: None},
              {0: 2, 1: None, 2: 2, 5: None}, {i: None for i in range(6)}]
    for i, e in enumerate(expect):
        assert lfp(prog[: i + 1], range(8), 2) == e, (i, lfp(prog[: i + 1], range(8), 2), e)
    seg = [(0, (1, 2), (0, 0)), (1, (4, 14), (0, 0)), (2, (), ()), (3, (16, 5), (1, 0)), (4, (), ()), (5, (), ()),
           (6, (7, 5, 17), (2, 1, 1)), (16, (6,), (0,)), (7, (), ()), (8, (9, 5), (1, 0)), (12, (20, 5), (-1, 0)),
           (20, (13,), (0,)), (13, (15, 2, 5), (-1, 1, 0)), (15, (1,), (0,)), (14, (3,), (0,))]
    assert lfp(seg, range(21), 2) == {0: 2, 1: 2, 2: None, 3: 2, 4: None, 5: None, 6: 1, 7: None, 8: 1, 13: 1,
                                      14: 2, 15: 2, 16: 1, 20: 1}
    # 2. cap argument: same answer with a much larger cap-multiplier (S doubled) on random universes
    rng = random.Random(12345)
    n = 0
    for _ in range(1500 if tier == "quick" else 6000):
        L = rng.randint(1, 4)
        rules = []
        for _ in range(rng.randint(1, 5)):
            k = rng.randint(0, 3)
            rules.append((rng.randrange(L), tuple(rng.randrange(L) for _ in range(k)),
                          tuple(rng.randint(-2, 2) for _ in range(k))))
        a = lfp(rules, range(L), 2)
        b = lfp(rules, range(L), 9)
        assert a == b, (rules, a, b)
        n += 1
    return {"lfp_vs_typed_in_test_expectations": 4, "lfp_cap_stability_random_universes": n}


def meta(tier):
    m = {
        "functions": [TableMethod.add_rule_key, TableMethod._compute_shift, TableMethod._correct_gap,
                      TableMethod._process_queue, TableMethod._can_give_terms, TableMethod._increase_value,
                      TableMethod._set_infinite, TableMethod.is_pumping, TableMethod.pumping_subuniverse,
                      Function, DefaultList],
        "bounds": {
            "quick": "all ordered rule lists (mod label renaming) with <=2 labels, <=2 rules, arity <=2 (105 shapes); the two-rule lists "
                     "with <=2 shifts again with shifts in [-4,4]; key sequences of real searches under the forest database (64 tables x 9 packs, "
                     "reverse keys with negative shifts included) compared after every key; "
                     "every second of the 316 3-rule lists over 2 labels with <=3 shifts containing a 0-ary rule; shifts symbolic in [-2,2]; "
                     "the three test_forest universes with a window of 3 shifts symbolic within +-1 of the typed-in value",
            "thorough": "all 3-rule lists over <=2 labels with <=4 shifts; 3-rule lists over exactly 3 labels with <=3 "
                        "shifts; shifts in [-2,2]; 2-rule lists with shifts in [-3,3]; sliding windows over the test universes",
        }[tier],
        "outside": ["more labels/rules than stated", "|shift| larger than stated", "status() strings",
                    "RuleDBForest.add wiring (covered by C04/C11 integration)"],
        "stubs": [],
        "assumptions": ["reference least-fixed-point evaluator (vlib/oracles.lfp), validated against the expectations "
                        "typed into tests/test_forest.py and for cap stability",
                        "CrossHair path exhaustion (reachability twin per group guards vacuity)"],
    }
    m["bounds"] = str(m.get("bounds", "")) + " || end-to-end groups of this run: " + e2e.describe_groups(groups(tier))
    return m
