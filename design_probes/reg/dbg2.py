import sys, logging, logzero, traceback
sys.path.insert(0, '/tmp/probe/reg')
from reg2 import *
from comb_spec_searcher.rule_db import RuleDB, RuleDBForgetStrategy
logzero.loglevel(logging.CRITICAL)
T = Table(((0, 1), (0, 1)), (True, True))
for dbc in (RuleDB, RuleDBForgetStrategy):
    s = CombinatorialSpecificationSearcher(Lang(T, 0), mkpack(('inferral',)), ruledb=dbc()); s.status = lambda elaborate: ""
    try:
        spec = s.auto_search(); print(dbc.__name__, 'ok')
    except Exception as e:
        traceback.print_exc()
    db = s.ruledb
    print(dbc.__name__, 'rules', sorted(db.rule_to_strategy), 'eqv', sorted(db.eqv_rule_to_strategy))
    print('edges', {k: sorted(v) for k, v in db.equivdb.vertices.items()})
    for l in range(len(s.classdb.label_to_info)): print(l, s.classdb.get_class(l), s.classdb.is_empty(s.classdb.get_class(l), l))
