import random, sys, logzero, logging
from collections import defaultdict
from comb_spec_searcher.rule_db.base import RuleDB
from comb_spec_searcher.strategies.rule import VerificationRule
logzero.loglevel(logging.CRITICAL)
class Pack:
    def __init__(self, it): self.iterative = it
class CDB:
    def is_empty(self, c, l=None): return False
class Q:
    def set_stop_yielding(self, l): pass
class Searcher:
    def __init__(self, it, root): self.strategy_pack = Pack(it); self.classdb = CDB(); self.classqueue = Q(); self.start_label = root
class StubRule:
    def __init__(self, n, two): self.children = tuple(range(n)); self.possibly_empty = False; self._two = two; self.strategy = ('strat', n, two)
    def is_two_way(self): return self._two
class VR(VerificationRule):
    def __init__(self): pass
    children = (); possibly_empty = False; strategy = 'ver'
    def is_two_way(self): return False
def reference(adds, root, iterative, L):
    # equivalence graph: unary rules; two-way => both directions, one-way => one direction
    edges = set(); rules = []; verified = set()
    for (p, ends, two, ver) in adds:
        ends = tuple(sorted(ends))
        if ends == (p,): continue
        if ver: verified.add(p)
        if len(ends) == 1:
            edges.add((p, ends[0]))
            if two: edges.add((ends[0], p))
        rules.append((p, ends, two))
    reach = [[i == j for j in range(L)] for i in range(L)]
    for a, b in edges: reach[a][b] = True
    for k in range(L):
        for i in range(L):
            for j in range(L):
                if reach[i][k] and reach[k][j]: reach[i][j] = True
    rep = lambda x: min(y for y in range(L) if reach[x][y] and reach[y][x])
    rd = defaultdict(set)
    # stored rules: last writer wins on same key, two-way unary removes the one-way copies; but set semantics suffice
    for (p, ends, two) in rules:
        if len(ends) == 1 and rep(p) == rep(ends[0]): continue
        rd[rep(p)].add(tuple(sorted(rep(e) for e in ends)))
    if not iterative:
        alive = set(rd)
        while True:
            new = {k for k in alive if any(all(c in alive for c in r) for r in rd[k])}
            if new == alive: break
            alive = new
        return rep(root) in alive
    ver = {rep(root)}; derived = set()
    while True:
        new = {k for k in rd if any(all(c in ver for c in r) for r in rd[k])}
        if new <= derived: break
        derived |= new; ver |= new
    return rep(root) in derived
if __name__ != '__main__': sys.argv = ['x', '0', '0']
rng = random.Random(int(sys.argv[1])); bad = defaultdict(int); tot = defaultdict(int)
for t in range(int(sys.argv[2])):
    L = rng.randint(1, 4); it = rng.random() < 0.5; root = rng.randrange(L)
    db = RuleDB(); db.link_searcher(Searcher(it, root)); adds = []
    for _ in range(rng.randint(1, 6)):
        p = rng.randrange(L); k = rng.choice([0, 1, 1, 2]); ends = tuple(rng.randrange(L) for _ in range(k))
        ver = (k == 0); two = (k == 1 and rng.random() < 0.6)
        adds.append((p, ends, two, ver))
        db.add(p, ends, VR() if ver else StubRule(k, two))
        got = db.has_specification(); ref = reference(adds, root, it, L)
        tot[it] += 1
        if got != ref:
            bad[it] += 1
            if bad[it] < 3: print('MISMATCH iterative=%s root=%s' % (it, root), adds, got, ref)
print('bad', dict(bad), 'of', dict(tot))
