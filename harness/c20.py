"""C20 - equations and generating functions agree with the true enumeration.

(a) direct z3 queries: for every configuration of the C09 catalogue the real get_equation of the rule form is called
    with fresh sympy functions; the returned sympy.Eq is *interpreted* (small evaluator over Add / Mul / Pow / applied
    functions with argument substitution, no sympy expansion of unknowns) in the polynomial ring over x and the
    statistics whose coefficients are z3 integer terms: one unknown per (child, size, statistic values) for the
    children, the reference semantics of C09 for the parent.  Every coefficient identity lhs - rhs = 0 is a validity query
    over all integer unknowns (quotients are cross-multiplied).
(b) end-to-end on REG (harness/e2e.py): every equation emitted by every returned specification is satisfied coefficient by
    coefficient by the brute-force series of the classes up to order N+4 (beyond the built-in order-6 check), and a closed
    form returned by get_genf has the brute-force Taylor coefficients up to order 2*6+4.
"""
import itertools

import sympy

from comb_spec_searcher.strategies.constructor import CartesianProduct, Complement, DisjointUnion, Quotient
from comb_spec_searcher.strategies.rule import EquivalencePathRule, EquivalenceRule, ReverseRule, Rule, VerificationRule
from comb_spec_searcher.utils import taylor_expand

import harness.c09 as c09
import harness.e2e as e2e
import universes.reg as R
from harness.e2e import Bad
from universes.stub import K, Prod, Union
from vlib import core

LAST_FAILURE = None
ORDER = 10


# ------------------------------------------------------------------ polynomial ring with arbitrary coefficients
class Poly:
    """Sparse polynomial in named variables; coefficients: python ints, z3 terms or Fractions."""

    def __init__(self, terms=None):
        self.t = dict(terms or {})  # frozenset of (var, exp) -> coefficient

    @staticmethod
    def const(c):
        return Poly({frozenset(): c}) if not _is_zero(c) else Poly()

    @staticmethod
    def var(name):
        return Poly({frozenset([(name, 1)]): 1})

    def __add__(self, o):
        r = dict(self.t)
        for m, c in o.t.items():
            r[m] = r[m] + c if m in r else c
        return Poly(r)

    def __neg__(self):
        return Poly({m: -c for m, c in self.t.items()})

    def __sub__(self, o):
        return self + (-o)

    def __mul__(self, o):
        r = {}
        for m1, c1 in self.t.items():
            d1 = dict(m1)
            for m2, c2 in o.t.items():
                d = dict(d1)
                for v, e in m2:
                    d[v] = d.get(v, 0) + e
                if d.get("x", 0) > TRUNC[0]:
                    continue
                m = frozenset(d.items())
                c = c1 * c2
                r[m] = r[m] + c if m in r else c
        return Poly(r)

    def pow(self, n):
        r = Poly.const(1)
        for _ in range(n):
            r = r * self
        return r


TRUNC = [10 ** 9]


def _is_zero(c):
    return isinstance(c, int) and c == 0


def interp(e, funcs):
    """-> (numerator Poly, denominator Poly)"""
    if e.is_Integer:
        return Poly.const(int(e)), Poly.const(1)
    if e.is_Rational:
        return Poly.const(int(e.p)), Poly.const(int(e.q))
    if e.is_Symbol:
        return Poly.var(str(e)), Poly.const(1)
    if e.is_Add:
        num, den = Poly(), Poly.const(1)
        for a in e.args:
            n, d = interp(a, funcs)
            num, den = num * d + n * den, den * d
        return num, den
    if e.is_Mul:
        num, den = Poly.const(1), Poly.const(1)
        for a in e.args:
            n, d = interp(a, funcs)
            num, den = num * n, den * d
        return num, den
    if e.is_Pow:
        b, ex = e.args
        if not ex.is_Integer:
            raise NotImplementedError(e)
        n, d = interp(b, funcs)
        k = int(ex)
        if k >= 0:
            return n.pow(k), d.pow(k)
        return d.pow(-k), n.pow(-k)
    if isinstance(e, sympy.core.function.AppliedUndef):
        series, formal = funcs[e.func.__name__]  # Poly in its own formal variables, names of those variables
        args = []
        for a in e.args:
            n, d = interp(a, funcs)
            if d.t != Poly.const(1).t:
                raise NotImplementedError("fraction as function argument")
            args.append(n)
        res = Poly()
        for m, c in series.t.items():
            term = Poly.const(c) if not _is_zero(c) else Poly()
            if not term.t:
                continue
            dm = dict(m)
            for name, arg in zip(formal, args):
                term = term * arg.pow(dm.get(name, 0))
            res = res + term
        return res, Poly.const(1)
    raise NotImplementedError(type(e))


def series_of_table(tab, params):
    """{n: {vals: coeff}} -> Poly in x and params"""
    p = Poly()
    for n, row in tab.items():
        for vals, c in row.items():
            d = {"x": n} if n else {}
            for name, v in zip(params, vals):
                if v:
                    d[name] = v
            m = frozenset(d.items())
            p.t[m] = p.t[m] + c if m in p.t else c
    return p


def equation_residuals(eq, funcs):
    ln, ld = interp(eq.lhs, funcs)
    rn, rd = interp(eq.rhs, funcs)
    diff = ln * rd - rn * ld
    return diff.t


# ------------------------------------------------------------------ (a) obligations from the C09 catalogue
def z3_tables(shape):
    import z3
    lay, lo = c09.layout(shape)
    vals = [z3.Int("c%d_n%d_%s" % (i, n, "_".join(map(str, v)))) for (i, n, v) in lay]
    return vals, c09.tables_from(shape, vals)


def config_equations(shape):
    """-> list of (form name, sympy.Eq, funcs dict) for one union/product configuration (coefficients = z3 unknowns)"""
    x = sympy.var("x")
    vals, tabs = z3_tables(shape)
    kids = [c09.mk_class(i + 1, ch) for i, ch in enumerate(shape["children"])]
    live = [i for i, ch in enumerate(shape["children"]) if not ch.get("empty")]
    pmin = sum(c.m for c in kids) if shape["kind"] == "product" else min(kids[i].m for i in live)
    parent = K(0, pmin, False, shape["parent"]["params"])
    strat = (Prod if shape["kind"] == "product" else Union)(kids, shape["maps"])
    ptab = (c09.product_ref if shape["kind"] == "product" else c09.union_ref)(shape, tabs)

    def fn(c):
        return sympy.Function("F_%d" % c.name)(x, *[sympy.var(p) for p in c.extra_parameters])

    funcs = {"F_0": (series_of_table(ptab, parent.extra_parameters), ("x",) + tuple(parent.extra_parameters))}
    for i, k in enumerate(kids):
        funcs["F_%d" % k.name] = (series_of_table(tabs[i], k.extra_parameters), ("x",) + tuple(k.extra_parameters))
    out = []
    forms = shape["forms"]

    def add(name, rule):
        try:
            out.append((name, rule.get_equation(fn), funcs))
        except NotImplementedError:
            pass  # the library declines (complement / quotient equations with statistics); nothing is claimed then

    if "fwd" in forms:
        add("forward", strat(parent))
    for i in range(len(kids)):
        if ("rev%d" % i) in forms and c09.reverse_admissible(shape, i):
            add("reverse%d" % i, strat(parent).to_reverse_rule(i))
    if "eq" in forms:
        add("equivalence", strat(parent).to_equivalence_rule())
    if "eqrev" in forms and c09.reverse_admissible(shape, live[0]) and len(set(shape["maps"][live[0]].values())) == len(shape["maps"][live[0]]):
        add("reverse-of-equivalence", strat(parent).to_equivalence_rule().to_reverse_rule(0))
    return out, vals


def e2_obligations(tier):
    import z3
    obl = []
    for shape in c09.catalogue("quick"):
        if shape["kind"] == "path":
            continue
        if any(not set(ch["params"]) <= set(m.values()) for ch, m in zip(shape["children"], shape["maps"]) if not ch.get("empty")):
            continue  # a child tracking a statistic the parent does not: its variable stays free in the equation (outside the claim)
        shape = dict(shape)
        shape["W"] = min(shape["W"], 2)
        eqs, vals = config_equations(shape)
        pre = z3.And(*[v >= 0 for v in vals]) if vals else z3.BoolVal(True)
        for form, eq, funcs in eqs:
            res = equation_residuals(eq, funcs)
            claims = []
            for m, c in res.items():
                claims.append(c == 0 if not isinstance(c, int) else z3.BoolVal(c == 0))
            claim = z3.And(*claims) if claims else z3.BoolVal(True)
            obl.append(("%s/%s" % (shape["name"], form), z3.Implies(pre, claim)))
    return obl


def e2_replay(name, model):
    """Evaluate the same equation with the model's integer tables natively."""
    cname, form = name.split("/")
    shape = [dict(c) for c in c09.catalogue("quick") if c["name"] == cname][0]
    shape["W"] = min(shape["W"], 2)
    lay, lo = c09.layout(shape)
    vals = [int(model.get("c%d_n%d_%s" % (i, n, "_".join(map(str, v))), 0)) for (i, n, v) in lay]
    import unittest.mock as um
    with um.patch.object(__import__("harness.c20", fromlist=["x"]), "z3_tables", lambda s: (vals, c09.tables_from(s, vals))):
        eqs, _ = config_equations(shape)
    for f, eq, funcs in eqs:
        if f == form:
            res = {m: c for m, c in equation_residuals(eq, funcs).items() if c != 0}
            if res:
                return "equation %s of %s has non-zero residual coefficients %r for tables %r" % (eq, name, list(res.items())[:3], vals)
    return None


# ------------------------------------------------------------------ (b) end-to-end
def truth_series(c, order):
    tab = {}
    if hasattr(c, "brute"):  # TREE universe
        for n in range(order + 1):
            k = len(c.brute(n)) if n <= 7 else None
            if k is None:
                break
            if k:
                tab[n] = {(): k}
        return series_of_table(tab, ())
    for n in range(order + 1):
        ws = [c.prefix] if (c.atom and n == len(c.prefix)) else ([] if c.atom else R.words(c.t, n, c.q, c.prefix))
        for w in ws:
            key = tuple(w.count("a") for _ in c.extra_parameters)
            tab.setdefault(n, {})[key] = tab.get(n, {}).get(key, 0) + 1
    return series_of_table(tab, c.extra_parameters)


def assert_equations(ctx):
    spec = ctx.spec
    if spec is None:
        return
    order = ORDER
    TRUNC[0] = order
    try:
        classes = list(spec.comb_classes())
        for n in range(3):
            spec.get_terms(n)
        eqs = list(spec.get_equations())
        funcs = {}
        for c in set(classes) | set(spec.rules_dict):
            name = str(spec.get_function(c).func)
            funcs[name] = (truth_series(c, order), ("x",) + tuple(c.extra_parameters))
        for eq in eqs:
            if "NOTIMPLEMENTED" in str(eq):
                core.observe("equations the library declines")
                continue
            res = equation_residuals(eq, funcs)
            bad = {m: c for m, c in res.items() if c != 0 and dict(m).get("x", 0) <= order - 2}
            if bad:
                raise Bad("equation %s is not satisfied by the true series: residual %r" % (eq, sorted((sorted(m), c) for m, c in bad.items())[:3]))
        core.observe("equations checked", len(eqs))
        if ctx.shape.get("genf") and not ctx.stats:
            gf = spec.get_genf()
            coeffs = taylor_expand(gf, 2 * 6 + 4)
            want = [len(e2e.truth_objects(ctx, n)) for n in range(2 * 6 + 5)]
            if [int(c) for c in coeffs] != want:
                raise Bad("get_genf() = %s expands to %r, brute force %r" % (gf, coeffs, want))
            core.observe("closed forms checked")
    finally:
        TRUNC[0] = 10 ** 9


ASSERT = assert_equations
PREPARE = None

# >>> e2e wrappers
# ---- end-to-end wrappers (same text in every module that uses harness/e2e.py; ASSERT / PREPARE are module globals)
def check_opt(t: int) -> bool:
    """
    pre: e2e.tin(t)
    post: _
    """
    return core.final(e2e.body_opt(t, ASSERT, PREPARE))


def check_sched(t: int, j: int) -> bool:
    """
    pre: e2e.tin(t) and 0 <= j <= e2e.NJ
    post: _
    """
    return core.final(e2e.body_sched(t, j, ASSERT, PREPARE))


def check_sched2(t: int, j0: int, j1: int) -> bool:
    """
    pre: e2e.tin(t) and 0 <= j0 < j1 <= e2e.NJ
    post: _
    """
    return core.final(e2e.body_sched2(t, j0, j1, ASSERT, PREPARE))


def check_rng(t: int, d0: int, d1: int, d2: int) -> bool:
    """
    pre: e2e.tin(t) and 0 <= d0 <= 2 and 0 <= d1 <= 2 and 0 <= d2 <= 2
    post: _
    """
    return core.final(e2e.body_rng(t, (d0, d1, d2), ASSERT, PREPARE))
# <<< e2e wrappers


def on_shape(shape):
    if "db" in shape:
        e2e.on_shape(shape)


def groups(tier):
    gs = []
    n2 = len(e2e.tables(2))
    opts = ["plain", "inferral", "symmetry", "factory", "finite", "k", "kk", "ku", "two"]
    if tier == "thorough":
        opts += ["factory2", "two-k", "k-inferral", "ku-factory", "finite-mixed"]
    for db in ("base", "forget", "forest"):
        for opt in opts + (["opaque", "opaque-k"] if db == "forest" else []):
            gs.append({"name": "eq-%s-%s-S2" % (db, opt), "fn": "check_opt", "shape": {"db": db, "opt": opt, "S": 2},
                       "cond_timeout": 2400.0, "path_timeout": 200.0, "expect_space": n2, "weight": n2})
    for db in ("base", "forest"):
        for lo in range(0, n2, 16):
            gs.append({"name": "genf-%s-plain-S2-t%d" % (db, lo), "fn": "check_opt",
                       "shape": {"db": db, "opt": "plain", "S": 2, "genf": True, "trange": [lo, lo + 16]},
                       "cond_timeout": 2400.0, "path_timeout": 300.0, "expect_space": 16, "weight": 16 * 20})
    if tier == "thorough":
        n3 = len(e2e.tables(3))
        for db in ("base", "forest"):
            for opt in ("plain", "k"):
                for lo in range(0, n3, 200):
                    hi = min(n3, lo + 200)
                    gs.append({"name": "eq-%s-%s-S3-t%d" % (db, opt, lo), "fn": "check_opt", "shape": {"db": db, "opt": opt, "S": 3, "trange": [lo, hi]},
                               "cond_timeout": 2400.0, "path_timeout": 200.0, "expect_space": hi - lo, "weight": hi - lo})
    return gs


def selftest(tier):
    # the evaluator on the equations tests/test_rule.py compares syntactically: union, complement, product, quotient
    x = sympy.var("x")
    F = [sympy.Function("F_%d" % i)(x) for i in range(4)]
    a = Poly({frozenset([("x", 1)]): 2, frozenset(): 1})   # 1 + 2x
    b = Poly({frozenset([("x", 2)]): 3})                   # 3x^2
    funcs = {"F_1": (a, ("x",)), "F_2": (b, ("x",)), "F_0": (a + b, ("x",)), "F_3": (a * b, ("x",))}
    assert not any(equation_residuals(sympy.Eq(F[0], F[1] + F[2]), funcs).values())
    assert not any(equation_residuals(sympy.Eq(F[1], F[0] - F[2]), funcs).values())
    assert not any(equation_residuals(sympy.Eq(F[3], F[1] * F[2]), funcs).values())
    assert not any(equation_residuals(sympy.Eq(F[1], F[3] / F[2]), funcs).values())
    assert any(equation_residuals(sympy.Eq(F[1], F[3] / F[2] / F[2]), funcs).values())
    k = sympy.var("k")
    G = sympy.Function("F_5")(x, k)
    g = Poly({frozenset([("x", 1), ("k", 1)]): 1})  # x*k
    assert not any(equation_residuals(sympy.Eq(sympy.Function("F_5")(x, k * k), G * k), {"F_5": (g, ("x", "k"))}).values())
    return e2e.selftest_universe(tier)


def meta(tier):
    from comb_spec_searcher import CombinatorialSpecification as Spec
    m = dict(e2e.COMMON_META)
    m.update({
        "functions": [DisjointUnion.get_equation, Complement.get_equation, CartesianProduct.get_equation, Quotient.get_equation,
                      Rule.get_equation, ReverseRule.get_equation, VerificationRule.get_equation, Spec.get_equations, Spec.get_genf,
                      Spec.get_initial_conditions, taylor_expand],
        "bounds": "(a) every union/product configuration of the C09 catalogue (23 configurations, forms: forward, every admissible reverse, "
                  "equivalence, reverse of equivalence) with one integer unknown per (child, size, statistic value) - coefficients "
                  "unbounded, classes finite (2 sizes, statistic values 0..1) so the series are polynomials and nothing is truncated; "
                  "(b) every equation of every specification returned for 64 two-state tables x 3 databases x the option sets listed below checked "
                  "against brute-force series to order 8; closed forms (plain pack, default and forest database) to order 16",
    })
    m["outside"] = m["outside"] + ["'for every order' for closed forms is claimed only to the stated order", "sympy's solve / series / expand are "
                                   "trusted computer algebra", "equivalence-path equations at the configuration level (covered end-to-end)",
                                   "configurations in which a child tracks a statistic the parent does not (its variable stays free in the emitted equation)"]
    m["bounds"] = str(m.get("bounds", "")) + " || end-to-end groups of this run: " + e2e.describe_groups(groups(tier))
    return m
