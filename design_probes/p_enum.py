from comb_spec_searcher.typing import ForestRuleKey, RuleBucket
def check(a: int) -> bool:
    """
    pre: 0 <= a < 3
    post: _
    """
    d = {}
    k = ForestRuleKey(0, (1,), (1,), RuleBucket.NORMAL)
    d[k] = 1
    e = {RuleBucket.NORMAL: [], RuleBucket.EQUIV: []}
    e[k.bucket].append(a)
    return ForestRuleKey(0, (1,), (1,), RuleBucket.NORMAL) in d and len(e[RuleBucket.NORMAL]) == 1
