from typing import List
from collections import defaultdict
from p_c09 import K, Prod
def check(a1: List[int], a2: List[int], b0: List[int], b1: List[int]) -> bool:
    """
    pre: len(a1) <= 2 and len(a2) <= 2 and len(b0) <= 2 and len(b1) <= 2
    post: _
    """
    A = K(1, 1); B = K(2, 0); P = K(0, 1)
    strat = Prod((A, B))
    strat.backward_map = lambda c, objs, children=None: iter([tuple(objs)])
    rule = strat(P)
    oa = {0: [], 1: [('a1', i) for i in range(len(a1))], 2: [('a2', i) for i in range(len(a2))]}
    ob = {0: [('b0', i) for i in range(len(b0))], 1: [('b1', i) for i in range(len(b1))], 2: []}
    def mk(d):
        def f(n):
            r = defaultdict(list)
            if d.get(n): r[()] = list(d[n])
            return r
        return f
    rule.subobjects = (mk(oa), mk(ob))
    for n in range(3):
        got = list(rule.get_objects(n)[()])
        exp = [(x, y) for i in range(n + 1) for x in oa.get(i, []) for y in ob.get(n - i, [])]
        if sorted(got) != sorted(exp) or len(set(got)) != len(got):
            return False
    return True
