import sys, logging, logzero
sys.path.insert(0, '/tmp/probe/reg')
from reg import *
from comb_spec_searcher.isomorphism import Isomorphism
logzero.loglevel(logging.CRITICAL)
def mk(T):
    s = CombinatorialSpecificationSearcher(Lang(T, 0), pack()); s.status = lambda elaborate: ""; return s
Ts = list(tables(2)); specs = {T.key(): mk(T).auto_search() for T in Ts}; res = Counter()
def chk(x, y):
    try: return Isomorphism.check(x, y)
    except AssertionError: return 'AE'
for T1 in Ts:
    for T2 in Ts:
        e1, e2 = 0 not in T1.live, 0 not in T2.live
        a, b = chk(specs[T1.key()], specs[T2.key()]), chk(specs[T2.key()], specs[T1.key()])
        res[(e1, e2, a, b)] += 1
        if (a == 'AE') and res[(e1, e2, a, b)] == 1: print(T1.key(), T2.key(), specs[T1.key()].root_rule.__class__.__name__, specs[T2.key()].root_rule.__class__.__name__)
for k, v in sorted(res.items(), key=str): print(v, k)
