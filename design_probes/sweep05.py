import itertools, logzero, logging, sys, traceback
logzero.loglevel(logging.CRITICAL)
from example import *
from comb_spec_searcher import *
from comb_spec_searcher.tree_searcher import iterative_prune
from comb_spec_searcher.exception import *
def words(maxlen, alpha):
    for n in range(0, maxlen+1):
        for w in itertools.product(alpha, repeat=n): yield ''.join(w)
W = [w for w in words(3, 'ab') if w]
sets = [c for r in (1,2) for c in itertools.combinations(W, r)]
itp = pack.make_iterative('it')
res = {}
for pref in words(2,'ab'):
  for p in sets:
    s = CombinatorialSpecificationSearcher(AvoidingWithPrefix(pref, p, ['a','b']), itp)
    try:
        for _ in range(6): s.do_level()
    except NoMoreClassesToExpandError: pass
    db = s.ruledb
    has = db.has_specification()
    rd = db.rules_up_to_equivalence()
    rep = db.equivdb[s.start_label]
    ref = rep in iterative_prune(rd, root=rep)
    k = (has, ref, rep == s.start_label)
    if has != ref and k not in res: print(pref, p, k)
    res[k] = res.get(k,0)+1
print(res)
