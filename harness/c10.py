"""C10 - declared shifts bound what a rule actually reads when counting.

(a) direct z3 queries: the real shift arithmetic (CartesianProductStrategy.shifts, DisjointUnionStrategy.shifts,
    ReverseRule.shifts, Quotient.__init__) is executed on z3 integer terms (unbounded minimum sizes, arity <= 4)
    and the algebraic claims are discharged as validity queries.
(b) pattern T: contract of utils.compositions (right sum, bounds respected, no duplicate, none missing).
(c) pattern D: direct observation - sub-term providers are instrumented, minimum sizes are solver variables (forked, the
    traced variant cost 6 s per path in solver calls of the reference convolution); for every rule form each request made
    while computing level m must be for a size <= m - shift (children) and < m (own terms).
"""
import itertools
from collections import Counter

from comb_spec_searcher.strategies.constructor import CartesianProduct, Quotient
from comb_spec_searcher.strategies.rule import ReverseRule, Rule
from comb_spec_searcher.strategies.strategy import CartesianProductStrategy, DisjointUnionStrategy
from comb_spec_searcher.utils import compositions

from universes.stub import K, Prod, Union
from vlib import core

LAST_FAILURE = None


def _fail(msg):
    global LAST_FAILURE
    LAST_FAILURE = msg
    return False


# ------------------------------------------------------------------ (a) algebra on z3 terms / ints
REPS = {2: [(0, 0)], 3: [(0, 0, 1), (0, 1, 0), (0, 1, 1), (0, 0, 0)], 4: [(0, 1, 0, 1), (0, 0, 0, 1)]}


def shift_claims(kind, mins, n, pm=None, rep=None):
    """Runs the real shift code on `mins` (z3 terms or ints).  -> list of (label, claim).
    pm: the parent's *declared* minimum size - any lower bound of its true minimum, so it is a free variable:
    what a rule reads is decided by the children's declared minima alone."""
    k = len(mins)
    if rep is not None:
        # repeated children: position i holds the *same class object* as position rep[i] (A x A, A x B x A, ...)
        base = [K(j + 1, mins[j]) for j in range(k)]
        kids = tuple(base[rep[i]] for i in range(k))
        mins = [mins[rep[i]] for i in range(k)]
    else:
        kids = tuple(K(i + 1, mins[i]) for i in range(k))
    total = mins[0]
    for m in mins[1:]:
        total = total + m
    claims = []
    if kind == "product":
        parent = K(0, total if pm is None else pm)
        rule = Prod(kids)(parent)
        sh = rule.shifts()
        for i in range(k):
            others = total - mins[i]
            claims.append(("product shift %d" % i, sh[i] == others))
            # child i is read at sizes <= n - sum of the other minima (contract of compositions) = n - shift
            claims.append(("product read bound %d" % i, n - others <= n - sh[i]))
        for j in range(k):
            rr = rule.to_reverse_rule(j)
            rsh = rr.shifts()
            q = rr.constructor
            claims.append(("quotient %d parent shift" % j, q._parent_shift == sh[j]))
            claims.append(("reverse %d shift of parent" % j, rsh[0] == -sh[j]))
            claims.append(("reverse %d parent read" % j, n + q._parent_shift <= n - rsh[0]))
            pos = 1
            for i in range(k):
                if i == j:
                    continue
                claims.append(("reverse %d shift of sibling %d" % (j, i), rsh[pos] == sh[i] - sh[j]))
                ub = (n + q._parent_shift) - (total - mins[i])
                claims.append(("reverse %d sibling %d read" % (j, i), ub <= n - rsh[pos]))
                pos += 1
    else:
        parent = K(0, mins[0] if pm is None else pm)
        rule = Union(kids)(parent)
        sh = rule.shifts()
        for i in range(k):
            claims.append(("union shift %d" % i, sh[i] + 0 * n == 0 * n))
        for j in range(k):
            rsh = rule.to_reverse_rule(j).shifts()
            for pos in range(k):
                claims.append(("complement %d shift %d" % (j, pos), rsh[pos] + 0 * n == 0 * n))
    return claims


def e2_obligations(tier):
    import z3

    obl = []
    for kind in ("product", "union"):
        for k in (1, 2, 3, 4):
            mins = [z3.Int("m%d" % i) for i in range(k)]
            n = z3.Int("n")
            pm = z3.Int("pm")
            pre = z3.And(pm >= 0, *[m >= 0 for m in mins])
            for label, claim in shift_claims(kind, mins, n, pm):
                obl.append(("%s/k%d/%s" % (kind, k, label), z3.Implies(pre, claim)))
            for rep in REPS.get(k, []):
                for label, claim in shift_claims(kind, mins, n, pm, rep):
                    obl.append(("%s-rep%s/k%d/%s" % (kind, "".join(map(str, rep)), k, label), z3.Implies(pre, claim)))
    return obl


def e2_replay(name, model):
    kind, ks, label = name.split("/", 2)
    rep = None
    if "-rep" in kind:
        kind, r = kind.split("-rep")
        rep = tuple(int(ch) for ch in r)
    k = int(ks[1:])
    mins = [int(model.get("m%d" % i, 0)) for i in range(k)]
    n = int(model.get("n", 0))
    for lab, claim in shift_claims(kind, mins, n, int(model.get("pm", 0)), rep):
        if lab == label and not claim:
            return "claim %s fails natively for mins=%r n=%d" % (name, mins, n)
    return None


# ------------------------------------------------------------------ (b) compositions
def _comp_body(n, mins, maxs_raw):
    k = len(mins)
    nonepat = core.SHAPE["none"]
    maxs = tuple(None if nonepat[i] else maxs_raw[i] for i in range(k))
    for m, M in zip(mins, maxs):
        if M is not None and M < m:
            return True  # not a meaningful request (callers pass max >= min)
    seen = []
    for c in compositions(n, k, mins, maxs):
        if len(c) != k or sum(c) != n:
            return _fail("composition %r of %d has the wrong length or sum" % (c, n))
        for ci, m, M in zip(c, mins, maxs):
            if ci < m or (M is not None and ci > M):
                return _fail("composition %r violates min %r / max %r" % (c, mins, maxs))
        if c in seen:
            return _fail("composition %r yielded twice" % (c,))
        seen.append(c)
    cnt = 0
    for t in itertools.product(range(0, 5), repeat=k):
        if sum(t) == n and all(ci >= m and (M is None or ci <= M) for ci, m, M in zip(t, mins, maxs)):
            cnt += 1
    if cnt != len(seen):
        return _fail("compositions(%r, %d, %r, %r) yields %d tuples, there are %d" % (n, k, mins, maxs, len(seen), cnt))
    return True


def check_comp1(n: int, m0: int, x0: int) -> bool:
    """
    pre: 0 <= n <= 4 and 0 <= m0 <= 2 and 0 <= x0 <= 3
    post: _
    """
    return core.final(_comp_body(n, (m0,), (x0,)))


def check_comp2(n: int, m0: int, m1: int, x0: int, x1: int) -> bool:
    """
    pre: 0 <= n <= 4 and 0 <= m0 <= 2 and 0 <= m1 <= 2 and 0 <= x0 <= 3 and 0 <= x1 <= 3
    post: _
    """
    return core.final(_comp_body(n, (m0, m1), (x0, x1)))


def check_comp3(n: int, m0: int, m1: int, m2: int, x0: int, x1: int, x2: int) -> bool:
    """
    pre: 0 <= n <= 4 and 0 <= m0 <= 2 and 0 <= m1 <= 2 and 0 <= m2 <= 2 and 0 <= x0 <= 3 and 0 <= x1 <= 3 and 0 <= x2 <= 3
    post: _
    """
    return core.final(_comp_body(n, (m0, m1, m2), (x0, x1, x2)))


# ------------------------------------------------------------------ (c) observation
NMAX = 4


def ones_table(m, atom, top):
    """A genuine class with one object of each size >= m (an atom: only size m)."""
    return lambda s: (1 if (s == m if atom else s >= m) else 0) if s <= top else 0


def run_observe(shape, mins):
    kind = shape["kind"]
    atoms = shape["atoms"]
    k = len(atoms)
    kids = tuple(K(i + 1, mins[i], atoms[i]) for i in range(k))
    # "loose": child 0 declares a lower bound one below its true minimum size (allowed by the documentation of
    # minimum_size_of_object); the parent declares its true minimum
    true_mins = tuple(m + (1 if (shape.get("loose") and i == 0) else 0) for i, m in enumerate(mins))
    cnt = [ones_table(true_mins[i], atoms[i], 10 ** 6) for i in range(k)]
    if kind == "product":
        pm = sum(true_mins)

        def pcount(s):
            tot = 0
            for comp in itertools.product(range(0, 12), repeat=k - 1):
                last = s - sum(comp)
                if last < 0:
                    continue
                c = 1
                for i, ci in enumerate(tuple(comp) + (last,)):
                    c = c * cnt[i](ci)
                tot = tot + c
            return tot
        strat = Prod(kids)
    else:
        pm = min(true_mins)

        def pcount(s):
            return sum(cnt[i](s) for i in range(k))
        strat = Union(kids)
    parent = K(0, pm)
    log = []
    level = [0]

    def prov(who, f):
        def g(s):
            log.append((level[0], who, s))
            v = f(s)
            return Counter({(): v}) if v else Counter()
        return g

    def audit(rule, providers, names):
        """names[i] = position in rule.children"""
        rule.subterms = tuple(providers)
        sh = rule.shifts()
        orig = rule.constructor.get_terms

        def spy(parent_terms, subterms, m):
            level[0] = m

            def own(s):
                log.append((m, "own", s))
                return parent_terms(s)
            return orig(own, subterms, m)

        rule.constructor.get_terms = spy
        for m in range(NMAX + 1):
            rule.get_terms(m)
        for (m, who, s) in log:
            if who == "own":
                if not s < m:
                    return _fail("%s: level %d reads its own terms at size %d" % (names, m, s))
            else:
                if not s <= m - sh[who]:
                    return _fail("%s: level %d reads child %d at size %d > %d - shift %d" % (names, m, who, s, m, sh[who]))
        del log[:]
        return True

    forms = shape["forms"]
    if "fwd" in forms:
        rule = strat(parent)
        if not audit(rule, [prov(i, cnt[i]) for i in range(k)], "forward"):
            return False
    for j in range(k):
        if ("rev%d" % j) in forms:
            rr = strat(parent).to_reverse_rule(j)
            provs = [prov(0, pcount)]
            pos = 1
            for i in range(k):
                if i != j:
                    provs.append(prov(pos, cnt[i]))
                    pos += 1
            if not audit(rr, provs, "reverse counting child %d" % j):
                return False
            # the values must also be right (otherwise a rule that reads nothing would pass)
            for m in range(NMAX + 1):
                if rr.get_terms(m)[()] != cnt[j](m):
                    return _fail("reverse counting child %d gives %r at size %d" % (j, rr.get_terms(m), m))
    return True


def check_obs2(a: int, b: int) -> bool:
    """
    pre: 0 <= a <= 2 and 0 <= b <= 2
    post: _
    """
    mins = (core.pick(a, 0, 2), core.pick(b, 0, 2))
    with core.NoTracing():
        core.tally(mins)
        return core.final(run_observe(core.SHAPE, mins))


def check_obs3(a: int, b: int, c: int) -> bool:
    """
    pre: 0 <= a <= 2 and 0 <= b <= 2 and 0 <= c <= 2
    post: _
    """
    mins = (core.pick(a, 0, 2), core.pick(b, 0, 2), core.pick(c, 0, 2))
    with core.NoTracing():
        core.tally(mins)
        return core.final(run_observe(core.SHAPE, mins))


def groups(tier):
    gs = []
    for k in (1, 2, 3):
        for nonepat in itertools.product((False, True), repeat=k):
            if tier == "quick" and k == 3 and sum(1 for x in nonepat if not x) >= 2:
                continue  # three parts with two or more finite maxima: thorough tier only (130-270 s each)
            gs.append({"name": "compositions-k%d-%s" % (k, "".join("N" if x else "b" for x in nonepat)), "fn": "check_comp%d" % k,
                       "shape": {"none": list(nonepat)}, "cond_timeout": 1500.0, "path_timeout": 120.0, "weight": 100 * k})
    for kind in ("product", "union"):
        for k in (2, 3):
            for atoms in itertools.product((False, True), repeat=k):
                forms = ["fwd"] + ["rev%d" % j for j in range(k)]
                gs.append({"name": "obs-%s-%s" % (kind, "".join("A" if a else "c" for a in atoms)), "fn": "check_obs%d" % k,
                           "shape": {"kind": kind, "atoms": list(atoms), "forms": forms},
                           "cond_timeout": 900.0, "path_timeout": 200.0, "weight": 3 ** k, "expect_space": 3 ** k})
                if not atoms[0]:
                    # the quotient needs exact minima of the siblings, so the loose child is only ever the counted one
                    gs.append({"name": "obs-loose-%s-%s" % (kind, "".join("A" if a else "c" for a in atoms)), "fn": "check_obs%d" % k,
                               "shape": {"kind": kind, "atoms": list(atoms), "forms": ["fwd", "rev0"], "loose": True},
                               "cond_timeout": 900.0, "path_timeout": 200.0, "weight": 3 ** k, "expect_space": 3 ** k})
    return gs


def selftest(tier):
    # the observation harness accepts the pinned behaviour on concrete minimum sizes (plumbing check)
    for kind in ("product", "union"):
        ok = run_observe({"kind": kind, "atoms": [True, False], "forms": ["fwd", "rev0", "rev1"]}, (1, 0))
        if not ok:
            return {"note": "observation harness reports on concrete sizes: %s" % LAST_FAILURE}
    return {}


def meta(tier):
    return {
        "functions": [CartesianProductStrategy.shifts, DisjointUnionStrategy.shifts, ReverseRule.shifts, Rule.shifts, Quotient.__init__,
                      Quotient.get_terms, Quotient._a, Quotient._c, CartesianProduct.get_terms, compositions, Rule._ensure_level],
        "bounds": "(a) arity 1..4, minimum sizes and n unbounded integers (z3 Int), every child index; (b) compositions: k<=3, n<=4, "
                  "minima<=2, maxima in {None,0..3}; (c) arity 2 and 3, every atom-flag pattern, minimum sizes symbolic in [0,2], "
                  "levels 0..4, forward and every reverse form, statistic-free classes with one object per size",
        "outside": ["arity > 4 in (a), > 3 in (b),(c)", "classes with statistics in (c) (shifts concern sizes only)",
                    "verification rules (no children)"],
        "stubs": ["stub classes / strategies; providers instrumented to log requested sizes"],
        "assumptions": ["minimum sizes are exact for the classes used in (c)"],
    }
