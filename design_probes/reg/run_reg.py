import sys, logging, logzero, time
sys.path.insert(0, '/tmp/probe/reg')
from reg import *
from comb_spec_searcher.rule_db import RuleDB, RuleDBForgetStrategy, RuleDBForest
from comb_spec_searcher.exception import SpecificationNotFound
from comb_spec_searcher import CombinatorialSpecification
import json
logzero.loglevel(logging.CRITICAL)
S = int(sys.argv[1]); stats = bool(int(sys.argv[2])); N = 6
res = Counter(); t0 = time.time()
for T in tables(S):
    for dbc in (RuleDB, RuleDBForgetStrategy, RuleDBForest):
        for it in ((False, True) if dbc is not RuleDBForest else (False,)):
            start = Lang(T, 0, "", False, stats)
            s = CombinatorialSpecificationSearcher(start, pack(it), ruledb=dbc())
            s.status = lambda elaborate: ""
            try:
                spec = s.auto_search()
            except SpecificationNotFound:
                res[(dbc.__name__, it, 'nospec')] += 1; continue
            except Exception as e:
                k = (dbc.__name__, it, 'EXC', type(e).__name__, str(e)[:50]); res[k] += 1
                if res[k] == 1: print(k, T.key())
                continue
            ok = True
            try:
                for n in range(N + 1):
                    if spec.get_terms(n) != start.get_terms(n) and not (not spec.get_terms(n) and not start.get_terms(n)):
                        # compare ignoring zero entries
                        a = {k: v for k, v in spec.get_terms(n).items() if v}; b = {k: v for k, v in start.get_terms(n).items() if v}
                        if a != b: ok = False
                    if sorted(spec.generate_objects_of_size(n)) != sorted(start.objects_of_size(n)) and not stats: ok = False
                rt = CombinatorialSpecification.from_dict(json.loads(json.dumps(spec.to_jsonable())))
                k = (dbc.__name__, it, 'ok' if ok else 'WRONG', 'rt_eq' if rt == spec else 'rt_ne')
            except Exception as e:
                k = (dbc.__name__, it, 'EXC-count', type(e).__name__, str(e)[:50])
                if res[k] == 0: print(k, T.key())
            res[k] += 1
            if not ok and res[k] == 1: print('WRONG', dbc.__name__, it, T.key())
for k, v in sorted(res.items(), key=str): print(v, k)
print('time', time.time() - t0)
