"""Create (on demand) the overlay virtualenv the checks run in and re-exec into it.

The overlay is /verif/.venv: a venv of /venv's interpreter (so the repository and
its dependencies are importable through a .pth file) with crosshair-tool and
z3-solver installed from the offline wheelhouse.  Nothing is fetched.
Only the standard library may be imported here.
"""
import fcntl
import os
import subprocess
import sys

VERIF = os.path.dirname(os.path.dirname(os.path.abspath(__file__)))
VENV = os.path.join(VERIF, ".venv")
BASE_PY = "/venv/bin/python"
BASE_SITE = "/venv/lib/python3.12/site-packages"
WHEELS = "/opt/veriftools/wheels"
PY = os.path.join(VENV, "bin", "python")


def _ok() -> bool:
    if not os.path.exists(PY):
        return False
    r = subprocess.run(
        [PY, "-c", "import crosshair, z3, comb_spec_searcher, sympy"],
        stdout=subprocess.DEVNULL,
        stderr=subprocess.DEVNULL,
    )
    return r.returncode == 0


def ensure_venv(verbose: bool = False) -> str:
    if _ok():
        return PY
    lock = open(os.path.join(VERIF, ".venv.lock"), "w")
    fcntl.flock(lock, fcntl.LOCK_EX)
    try:
        if _ok():
            return PY
        out = None if verbose else subprocess.DEVNULL
        subprocess.check_call([BASE_PY, "-m", "venv", VENV], stdout=out, stderr=out)
        sp = os.path.join(VENV, "lib", "python3.12", "site-packages")
        with open(os.path.join(sp, "_overlay.pth"), "w") as f:
            f.write("import site; site.addsitedir(%r)\n" % BASE_SITE)
        env = dict(os.environ, PIP_NO_INDEX="1")
        subprocess.check_call(
            [PY, "-m", "pip", "install", "--no-index", "--find-links", WHEELS,
             "--quiet", "crosshair-tool", "z3-solver"],
            stdout=out, stderr=out, env=env,
        )
        if not _ok():
            raise RuntimeError("overlay venv could not be built")
        return PY
    finally:
        fcntl.flock(lock, fcntl.LOCK_UN)
        lock.close()


def reexec_in_venv(argv):
    """Re-exec the current script under the overlay interpreter (idempotent)."""
    if os.path.realpath(sys.prefix) == os.path.realpath(VENV):
        return
    if os.environ.get("VERIF_REPO") and os.environ["VERIF_REPO"] not in os.environ.get("PYTHONPATH", ""):
        pass  # handled below (PYTHONPATH is set for the re-exec)
    py = ensure_venv()
    env = dict(os.environ)
    # VERIF_REPO (background sizing runs only): import the repository from a snapshot instead of /repo itself
    if env.get("VERIF_REPO"):
        env["PYTHONPATH"] = env["VERIF_REPO"] + (os.pathsep + env["PYTHONPATH"] if env.get("PYTHONPATH") else "")
    env.setdefault("PYTHONHASHSEED", "0")
    env["PYTHONDONTWRITEBYTECODE"] = "1"
    os.execve(py, [py] + argv, env)


if __name__ == "__main__":
    print(ensure_venv(verbose=True))
