import sys, logging, logzero, time, traceback
sys.path.insert(0, '/tmp/probe/reg')
from reg2 import *
from run02 import pack_rules, base_rule
from comb_spec_searcher.rule_db import RuleDB, RuleDBForgetStrategy, RuleDBForest
from comb_spec_searcher.strategies.strategy import EmptyStrategy
logzero.loglevel(logging.CRITICAL)
def run(T, opts, dbc):
    pk = mkpack(opts); start = Lang(T, 0); problems = []
    db = dbc(); log = []
    orig_add = db.add
    def rec_add(start_label, ends, rule):
        log.append((start_label, tuple(ends), rule)); return orig_add(start_label, ends, rule)
    db.add = rec_add
    s = CombinatorialSpecificationSearcher(start, pk, ruledb=db); s.status = lambda elaborate: ""
    try: s.auto_search()
    except Exception as e: return [('search-exc', type(e).__name__)]
    cdb = s.classdb
    classes = [cdb.get_class(l) for l in range(len(cdb.label_to_info))]
    if len(set(classes)) != len(classes): problems.append('dup-class-labels')
    for l, c in enumerate(classes):
        if cdb.get_label(c) != l: problems.append('label-unstable')
        if cdb.empty_list[l] is not None and cdb.empty_list[l] != c.is_empty(): problems.append(('empty-cache-wrong', c, cdb.empty_list[l]))
    for start_label, ends, rule in log:
        parent = cdb.get_class(start_label)
        if rule.comb_class != parent: problems.append('parent-label-mismatch')
        if tuple(cdb.get_label(c) for c in rule.children) != ends: problems.append('ends-mismatch')
        if isinstance(rule.strategy, EmptyStrategy):
            if not parent.is_empty(): problems.append('empty-rule-on-nonempty')
            continue
        cands = list(pack_rules(pk, parent))
        if not any(type(x.strategy) == type(rule.strategy) and x.children == rule.children for x in cands): problems.append(('not-from-pack', rule.strategy, parent))
    # stored keys vs log
    if not isinstance(db, RuleDBForest):
        stored = set(db)
        expect = set()
        for start_label, ends, rule in log:
            kept = tuple(sorted(e for e, c in zip(ends, rule.children) if not (rule.possibly_empty and c.is_empty())))
            if kept == (start_label,): continue
            expect.add((start_label, kept))
        if stored != expect: problems.append(('stored-mismatch', stored ^ expect))
    else:
        empties = [start_label for start_label, ends, rule in log if isinstance(rule.strategy, EmptyStrategy)]
        if len(set(empties)) != len(empties): problems.append('dup-empty-rule')
        need = set(e for _, ends, rule in log if rule.possibly_empty for e, c in zip(ends, rule.children) if c.is_empty())
        if set(empties) != need: problems.append(('empty-rules-mismatch', set(empties), need))
    return problems
S = int(sys.argv[1]); res = Counter(); t0 = time.time()
OPTS = [(), ('finite',), ('inferral',), ('symmetry',), ('factory',), ('inferral', 'symmetry', 'factory', 'finite')]
for T in tables(S):
    for opts in OPTS:
        for dbc in (RuleDB, RuleDBForgetStrategy, RuleDBForest):
            try: pr = run(T, opts, dbc)
            except Exception as e:
                pr = [('check-exc', type(e).__name__)]
                if res[('check-exc', type(e).__name__)] == 0: traceback.print_exc()
            k = tuple(sorted(set(str(p if isinstance(p, str) else p[0]) for p in pr))) or ('ok',)
            res[k] += 1
            if k != ('ok',) and res[k] == 1: print(k, T.key(), opts, dbc.__name__, pr[:2])
for k, v in sorted(res.items(), key=str): print(v, k)
print(time.time() - t0)
