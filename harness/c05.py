"""C05 - pruning-based detection and proof-tree search are exact.

Groups
  A  (pattern D)  every rule dictionary over 2 labels with arity <= 2 ("present" bit per candidate rule = solver
                  variables): real prune / iterative_prune / all finders against reference fixed points.
  R  (pattern D)  random finders on a catalogue of dictionaries; the draw tape is symbolic.
  M  (pattern T)  proof_tree_generator_dfs with a symbolic `maximum` (code runs traced).
  H  (pattern D)  real RuleDB fed through a stub searcher: each insertion (start, kind, ends) is a solver variable;
                  has_specification() after *every* add against the reference (SCC collapse + fixed point); then the
                  finders of the database (smallish / smallest / iterative).
  S  (pattern D)  RuleDB._get_smallest_node with a symbolic draw tape on the catalogue.
"""
import itertools
from collections import defaultdict
from copy import deepcopy

import comb_spec_searcher.tree_searcher as ts
from comb_spec_searcher.exception import SpecificationNotFound
from comb_spec_searcher.rule_db.base import RuleDB, RuleDBBase
from comb_spec_searcher.strategies.rule import VerificationRule
from comb_spec_searcher.tree_searcher import (
    Node,
    iterative_proof_tree_finder,
    iterative_prune,
    proof_tree_generator_bfs,
    proof_tree_generator_dfs,
    prune,
    random_proof_tree,
    smallish_random_proof_tree,
)

from vlib import core
from vlib.core import NoTracing, pick
from vlib.oracles import gfp_prune
from vlib.shims import Clock, Tape, patched_env

LAST_FAILURE = None
NV = 0
CAP = 39


class Bad(Exception):
    pass


def on_shape(shape):
    global NV, CAP
    CAP = int(shape.get("cap", 2))


# ------------------------------------------------------------------ references
def valid_tree(node, rd, root, iterative_root=None):
    """Only recorded rules, one rule per label, no label without a rule."""
    if node.label != root:
        return "root label %r != %r" % (node.label, root)
    rules = {}
    for n in node.nodes():
        ch = tuple(sorted(c.label for c in n.children))
        if n.children:
            if ch not in rd.get(n.label, ()):
                return "node %d uses unrecorded rule %r" % (n.label, ch)
            if n.label in rules and rules[n.label] != ch:
                return "label %d is given two rules %r and %r" % (n.label, rules[n.label], ch)
            rules[n.label] = ch
    for n in node.nodes():
        if not n.children:
            if n.label in rules or () in rd.get(n.label, ()):
                continue
            if iterative_root is not None and n.label == iterative_root:
                continue
            return "leaf %d has no rule" % n.label
    return None


def min_tree_size(rd, root):
    """Minimum over all assignments label->rule of 1 + sum of arities over the labels reachable from root."""
    rd = gfp_prune(rd)
    if root not in rd:
        return None
    best = [None]

    def rec(todo, chosen, size):
        if best[0] is not None and size >= best[0]:
            return
        todo = [l for l in todo if l not in chosen]
        if not todo:
            best[0] = size
            return
        l = todo[0]
        for r in sorted(rd[l]):
            c2 = dict(chosen)
            c2[l] = r
            rec(todo[1:] + list(r), c2, size + len(r))

    rec([root], {}, 1)
    return best[0]


def iter_derivable(rd, root):
    der = set()
    changed = True
    while changed:
        changed = False
        for k, rs in rd.items():
            if k not in der and any(all(c in der or c == root for c in r) for r in rs):
                der.add(k)
                changed = True
    return der


def tree_key(node):
    return str(node)


# ------------------------------------------------------------------ group A
CAND2 = [(p, ch) for p in (0, 1) for ch in ((), (0,), (1,), (0, 0), (0, 1), (1, 1))]


def check_dict(rd, tape_draws=()):
    """All finders on one concrete rules dictionary."""
    ref = gfp_prune(rd)
    got = deepcopy(rd)
    prune(got)
    if {k: set(v) for k, v in got.items()} != ref:
        raise Bad("prune(%r) = %r, greatest fixed point is %r" % (dict(rd), dict(got), ref))
    labels = sorted(set(rd) | {c for rs in rd.values() for r in rs for c in r})
    for root in labels + [None]:
        ip = iterative_prune(deepcopy(rd), root=root)
        want = iter_derivable(rd, root)
        if {k for k, v in ip.items() if v} != want:
            raise Bad("iterative_prune(%r, root=%r) keeps %r, derivable are %r" % (dict(rd), root, sorted(ip), sorted(want)))
        for k, rs in ip.items():
            for r in rs:
                if r not in rd.get(k, ()) or not all(c in want or c == root for c in r):
                    raise Bad("iterative_prune kept underivable/unknown rule %r -> %r" % (k, r))
        if root is not None and root in want:
            node = iterative_proof_tree_finder(deepcopy(ip), root)
            why = valid_tree(node, rd, root, iterative_root=root)
            if why:
                raise Bad("iterative_proof_tree_finder(%r, %r): %s in %s" % (dict(rd), root, why, node))
            for n in node.nodes():  # iterative: only recursion to the root itself
                if not n.children and n.label != root and () not in rd.get(n.label, ()):
                    raise Bad("iterative tree recurses to %d which is not the root" % n.label)
    for root in sorted(ref):
        m = min_tree_size(ref, root)
        with patched_env(Clock(), Tape(tape_draws)):
            t1 = random_proof_tree(got, root)
            t2 = smallish_random_proof_tree(got, root, 1.5)
        for name, t in (("random_proof_tree", t1), ("smallish_random_proof_tree", t2)):
            why = valid_tree(t, ref, root)
            if why:
                raise Bad("%s(%r, %r): %s in %s" % (name, ref, root, why, t))
            if len(t) < m:
                raise Bad("%s returned a tree smaller than the reference minimum" % name)
        alld = []
        for i, t in enumerate(proof_tree_generator_dfs(got, root)):
            if i >= 300:
                break
            why = valid_tree(t, ref, root)
            if why:
                raise Bad("proof_tree_generator_dfs(%r, %r): %s in %s" % (ref, root, why, t))
            alld.append(len(t))
        if not alld or min(alld) != m:
            if len(alld) < 300:
                raise Bad("depth-first generator: smallest tree has %r nodes, reference minimum %r (%r root %r)" % (
                    min(alld) if alld else None, m, ref, root))
        for i, t in enumerate(proof_tree_generator_bfs(got, root)):
            if i >= 300:
                break
            why = valid_tree(t, ref, root)
            if why:
                if core.known("bfs_generator", {"why": why}):
                    break
                raise Bad("proof_tree_generator_bfs(%r, %r): %s in %s" % (ref, root, why, t))
    for root in labels:
        if root not in ref:
            if list(proof_tree_generator_dfs(got, root)) or list(proof_tree_generator_bfs(got, root)):
                raise Bad("a generator produced a tree for %r which does not survive pruning" % root)
    return True


def _run(f, *a):
    global LAST_FAILURE
    try:
        return f(*a)
    except Bad as e:
        LAST_FAILURE = str(e)
        return False


def _body_a(bits):
    sh = core.SHAPE
    cands = [tuple((c[0], tuple(c[1]))) for c in sh["cands"]]
    present = tuple(sh.get("fixed", [])) + tuple(1 if b else 0 for b in bits)
    with NoTracing():
        core.tally(present)
        rd = defaultdict(set)
        for on, (p, ch) in zip(present, cands):
            if on:
                rd[p].add(ch)
        return _run(check_dict, rd)


def check_a6(b0: bool, b1: bool, b2: bool, b3: bool, b4: bool, b5: bool) -> bool:
    """
    post: _
    """
    return core.final(_body_a((b0, b1, b2, b3, b4, b5)))


def check_a8(b0: bool, b1: bool, b2: bool, b3: bool, b4: bool, b5: bool, b6: bool, b7: bool) -> bool:
    """
    post: _
    """
    return core.final(_body_a((b0, b1, b2, b3, b4, b5, b6, b7)))


# ------------------------------------------------------------------ catalogue of dictionaries with several proof trees
def _d(**kw):
    return {int(k[1:]): [list(r) for r in v] for k, v in kw.items()}


CATALOGUE = {
    "two_sizes": _d(L0=[(1, 1), (2,)], L1=[()], L2=[(1, 1, 1), (1,)]),
    "rec_vs_flat": _d(L0=[(0, 1), (1, 2)], L1=[()], L2=[(1,), (0, 1)]),
    "deep_chain": _d(L0=[(1,), (3, 3)], L1=[(2,)], L2=[(3,)], L3=[()]),
    "empty_or_expand": _d(L0=[(1, 2)], L1=[(), (2, 2)], L2=[(), (1,)]),
    "mutual": _d(L0=[(1, 2), (2, 2)], L1=[(0, 2), (2,)], L2=[()]),
    "wide": _d(L0=[(1, 2, 3), (1, 1)], L1=[(2,), (3, 3)], L2=[(3,)], L3=[()]),
    "repeat_child": _d(L0=[(1, 1)], L1=[(2, 2), (3,)], L2=[()], L3=[(2, 2, 2)]),
    "first_not_min": _d(L0=[(1, 3), (2,)], L1=[(3, 3)], L2=[(1, 1)], L3=[()]),
}


def _ladder(arities):
    """root 0 with one unary rule per gadget i+1; gadget i+1 -> leaf^arity; leaf -> ().  Tree sizes are 2+arity.
    The depth-first generator tries the rules in sorted order, so the order of the arities decides which size it meets first."""
    leaf = len(arities) + 1
    d = {0: [[i + 1] for i in range(len(arities))], leaf: [[]]}
    for i, a in enumerate(arities):
        d[i + 1] = [[leaf] * a]
    return d


for _sizes in ((2, 3, 4), (2, 4, 5)):
    for _perm in itertools.permutations(_sizes):
        CATALOGUE["ladder_%s" % "".join(map(str, _perm))] = _ladder(_perm)


def cat_dict(name):
    return {k: {tuple(r) for r in v} for k, v in CATALOGUE[name].items()}


def _body_r(draws):
    sh = core.SHAPE
    with NoTracing():
        rd = cat_dict(sh["dict"])
    # the tape forks on the draws (resumed tracing inside the shim); everything else is concrete
    with NoTracing():
        return _run(_finders_with_tape, rd, draws)


def _finders_with_tape(rd, draws):
    ref = gfp_prune(rd)
    got = {k: set(v) for k, v in ref.items()}
    root = 0
    m = min_tree_size(ref, root)
    tape = Tape(draws)
    with patched_env(Clock(), tape):
        t1 = random_proof_tree(got, root)
        t2 = smallish_random_proof_tree(got, root, 1.5)
        seen, t3 = ts.proof_tree_dfs(got, root)
    core.tally(tuple(tape.used))
    for name, t in (("random_proof_tree", t1), ("smallish_random_proof_tree", t2), ("proof_tree_dfs", t3)):
        why = valid_tree(t, ref, root)
        if why:
            raise Bad("%s: %s in %s (draws %r)" % (name, why, t, tape.used))
        if len(t) < m:
            raise Bad("%s smaller than minimum" % name)
    if len(t2) > len(t1) and False:
        pass
    return True


def _dr(*vs):
    for v in vs:
        if not (0 <= v <= CAP):
            return False
    return True


def check_r5(d0: int, d1: int, d2: int, d3: int, d4: int) -> bool:
    """
    pre: _dr(d0, d1, d2, d3, d4)
    post: _
    """
    return core.final(_body_r((d0, d1, d2, d3, d4)))


# ------------------------------------------------------------------ group M (traced)
def check_m(m: int) -> bool:
    """
    pre: 0 <= m <= 14
    post: _
    """
    sh = core.SHAPE
    rd = cat_dict(sh["dict"])
    ref = gfp_prune(rd)
    root = 0
    unbounded = set()
    for i, t in enumerate(proof_tree_generator_dfs(ref, root)):
        if i > 400:
            break
        unbounded.add(str(t))
    n = 0
    for t in proof_tree_generator_dfs(ref, root, maximum=m):
        n += 1
        if n > 400:
            break
        if valid_tree(t, ref, root) is not None:
            return core.final(False)
        if str(t) not in unbounded and len(unbounded) <= 400:
            return core.final(False)  # the bound invented a tree
        if len(t) > m:
            return core.final(False)  # larger than the bound asked for
    return core.final(True)


# ------------------------------------------------------------------ group H: RuleDB through a stub searcher
class _Pack:
    def __init__(self, it):
        self.iterative = it


class _CDB:
    def is_empty(self, c, l=None):
        return False


class _Q:
    def set_stop_yielding(self, l):
        pass


class _Searcher:
    def __init__(self, it, root):
        self.strategy_pack = _Pack(it)
        self.classdb = _CDB()
        self.classqueue = _Q()
        self.start_label = root


class StubRule:
    def __init__(self, n, two):
        self.children = tuple(range(n))
        self.possibly_empty = False
        self._two = two
        self.strategy = ("strat", n, two)

    def is_two_way(self):
        return self._two


class VR(VerificationRule):
    def __init__(self):  # pylint: disable=super-init-not-called
        pass

    children = ()
    possibly_empty = False
    strategy = "ver"

    def is_two_way(self):
        return False


def insertion_codes(L, unary_only=False):
    if unary_only:
        return [c for c in insertion_codes(L) if len(c[1]) <= 1]
    codes = []
    pairs = [(a, b) for a in range(L) for b in range(a, L)]
    for p in range(L):
        codes.append((p, (), False, True))
        for e in range(L):
            codes.append((p, (e,), True, False))
        for e in range(L):
            codes.append((p, (e,), False, False))
        for pr in pairs:
            codes.append((p, pr, False, False))
    return codes


def reference_db(adds, L):
    """-> (rep function, collapsed rules dict)"""
    edges = set()
    rules = []
    for (p, ends, two, ver) in adds:
        ends = tuple(sorted(ends))
        if len(ends) == 1:
            edges.add((p, ends[0]))
            if two:
                edges.add((ends[0], p))
        rules.append((p, ends))
    reach = [[i == j for j in range(L)] for i in range(L)]
    for a, b in edges:
        reach[a][b] = True
    for k in range(L):
        for i in range(L):
            for j in range(L):
                if reach[i][k] and reach[k][j]:
                    reach[i][j] = True

    def rep(x):
        return min(y for y in range(L) if reach[x][y] and reach[y][x])

    rd = defaultdict(set)
    for (p, ends) in rules:
        if len(ends) == 1 and rep(p) == rep(ends[0]):
            continue
        rd[rep(p)].add(tuple(sorted(rep(e) for e in ends)))
    return rep, rd


def reference_has_spec(rep, rd, root, iterative):
    if not iterative:
        return rep(root) in gfp_prune(rd)
    return rep(root) in iter_derivable(rd, rep(root))


def map_tree(node, rep):
    return Node(rep(node.label), [map_tree(c, rep) for c in node.children])


def run_db(iterative, root, L, codes, draws=(), unary_only=False):
    table = insertion_codes(L, unary_only)
    core.tally(tuple(codes))
    db = RuleDB()
    db.link_searcher(_Searcher(iterative, root))
    adds = []
    for c in codes:
        p, ends, two, ver = table[c]
        adds.append(table[c])
        db.add(p, ends, VR() if ver else StubRule(len(ends), two))
        rep, rd = reference_db(adds, L)
        want = reference_has_spec(rep, rd, root, iterative)
        got = db.has_specification()
        if got != want:
            if core.known("run_db", {"iterative": iterative, "adds": adds}):
                return True
            raise Bad("has_specification()=%r after %r (root %d, iterative=%r); reference %r on collapsed rules %r" % (
                got, adds, root, iterative, want, dict(rd)))
        again = db.has_specification()
        if again != got:
            raise Bad("has_specification() changed from %r to %r without an insertion" % (got, again))
        for l in range(L):
            if db.is_verified(l) and not iterative:
                if rep(l) not in gfp_prune(rd) and not any(rep(a[0]) == rep(l) and a[3] for a in adds):
                    raise Bad("label %d reported verified but is neither strategy-verified nor in a specification" % l)
    rep, rd = reference_db(adds, L)
    if not reference_has_spec(rep, rd, root, iterative):
        try:
            db._get_specification_node(1.5, False)
        except SpecificationNotFound:
            return True
        raise Bad("a specification node was returned although none exists")
    tape = Tape(draws)
    with patched_env(Clock(), tape):
        if iterative:
            node = db._get_iterative_node()
            t = map_tree(node, rep)
            pr = {k: v for k, v in rd.items()}
            why = valid_tree(t, pr, rep(root), iterative_root=rep(root))
            if why:
                raise Bad("_get_iterative_node: %s in %s after %r" % (why, node, adds))
            for n in t.nodes():
                if not n.children and n.label != rep(root) and () not in rd.get(n.label, ()):
                    raise Bad("iterative tree recurses to class %d which is not the start class" % n.label)
        else:
            ref = gfp_prune(rd)
            m = min_tree_size(ref, rep(root))
            for name, node in (("smallish", db._get_smallish_node(1.5)), ("smallest", db._get_smallest_node(1.5))):
                t = map_tree(node, rep)
                why = valid_tree(t, ref, rep(root))
                if why:
                    raise Bad("_get_%s_node: %s in %s after %r" % (name, why, node, adds))
                if name == "smallest" and len(node) != m:
                    raise Bad("_get_smallest_node returned %d nodes (%s), minimum is %d; rules %r draws %r" % (
                        len(node), node, m, ref, tape.used))
            for i, node in enumerate(db._all_nodes()):
                if i > 100:
                    break
                why = valid_tree(map_tree(node, rep), ref, rep(root))
                if why:
                    raise Bad("_all_nodes: %s in %s" % (why, node))
    return True


# ------------------------------------------------------------------ group E: rule sequences recorded by real searches
import harness.e2e as e2e  # noqa: E402


def prepare_detect(ctx):
    """Mirror every insertion of a real search into a fresh RuleDB (linked to the same searcher) and compare
    has_specification() with the reference after *every* insertion."""
    ctx.mirror = RuleDB()
    ctx.seq = []
    ctx.det_fail = None
    orig_add = ctx.db.add

    def add(start, ends, rule):
        orig_add(start, ends, rule)
        if ctx.det_fail is not None:
            return
        m = ctx.mirror
        if m._searcher is None:
            m.link_searcher(ctx.db.searcher)
        m.add(start, ends, rule)
        cdb = ctx.classdb
        kept = tuple(e for e, ch in zip(ends, rule.children) if not (rule.possibly_empty and cdb.is_empty(ch, e)))
        ctx.seq.append((start, kept, bool(len(kept) == 1 and rule.is_two_way()), isinstance(rule, VerificationRule)))
        L = len(cdb.comb_class_list)
        rep, rd = reference_db(ctx.seq, L)
        root = ctx.db.searcher.start_label
        want = reference_has_spec(rep, rd, root, bool(ctx.pack.iterative))
        got = m.has_specification()
        if got != want:
            ctx.det_fail = "after insertion %d (%r -> %r): has_specification()=%r, reference %r" % (len(ctx.seq), start, kept, got, want)

    ctx.db.add = add


def assert_detect(ctx):
    if ctx.det_fail is not None:
        raise Bad(ctx.det_fail)
    core.observe("insertions checked", len(ctx.seq))
    if any((not two) and len(k) == 1 and not v for _, k, two, v in ctx.seq):
        core.observe("runs with one-way unary rules")


def _explore_e(t, assert_fn, prepare):
    global LAST_FAILURE
    ok = e2e.body_opt(t, assert_fn, prepare)
    if not ok:
        LAST_FAILURE = e2e.LAST_FAILURE
    return ok


def check_opt(t: int) -> bool:
    """
    pre: e2e.tin(t)
    post: _
    """
    return core.final(_explore_e(t, assert_detect, prepare_detect))


NCODES = 39


def _body_h(vs):
    sh = core.SHAPE
    L = sh["L"]
    nc = len(insertion_codes(L, bool(sh.get("unary"))))
    codes = tuple(sh.get("fixed", [])) + tuple(pick(v, 0, nc - 1) for v in vs)
    with NoTracing():
        return _run(run_db, bool(sh["iterative"]), sh["root"], L, codes, (), bool(sh.get("unary")))


def _hc(*vs):
    for v in vs:
        if not (0 <= v < NCODES):
            return False
    return True


def check_h1(a: int) -> bool:
    """
    pre: _hc(a)
    post: _
    """
    return core.final(_body_h((a,)))


def check_h2(a: int, b: int) -> bool:
    """
    pre: _hc(a, b)
    post: _
    """
    return core.final(_body_h((a, b)))


def check_h3(a: int, b: int, c: int) -> bool:
    """
    pre: _hc(a, b, c)
    post: _
    """
    return core.final(_body_h((a, b, c)))


# ------------------------------------------------------------------ group S
def _body_s(draws):
    sh = core.SHAPE
    with NoTracing():
        rd = cat_dict(sh["dict"])
        return _run(_smallest_with_tape, rd, draws)


def _smallest_with_tape(rd, draws):
    db = RuleDB()
    db.link_searcher(_Searcher(False, 0))
    for k, rs in sorted(rd.items()):
        for r in sorted(rs):
            db.add(k, r, VR() if r == () else StubRule(len(r), False))
    ref = gfp_prune(rd)
    m = min_tree_size(ref, 0)
    tape = Tape(draws)
    with patched_env(Clock(), tape):
        node = db._get_smallest_node(1.5)
    core.tally(tuple(tape.used))
    why = valid_tree(node, ref, 0)
    if why:
        raise Bad("_get_smallest_node: %s in %s" % (why, node))
    if len(node) != m:
        raise Bad("_get_smallest_node returned %d nodes (%s) but a proof tree with %d nodes exists; draws %r" % (
            len(node), node, m, tape.used))
    return True


def check_s5(d0: int, d1: int, d2: int, d3: int, d4: int) -> bool:
    """
    pre: _dr(d0, d1, d2, d3, d4)
    post: _
    """
    return core.final(_body_s((d0, d1, d2, d3, d4)))


def on_shape(shape):  # noqa: F811
    global CAP, NCODES
    if "db" in shape:
        e2e.on_shape(shape)
        return
    CAP = int(shape.get("cap", 2))
    NCODES = len(insertion_codes(int(shape.get("L", 3)), bool(shape.get("unary"))))


# ------------------------------------------------------------------ groups
def groups(tier):
    gs = []
    # A: all dictionaries over 2 labels, arity <= 2 (12 candidates): first 4/6 bits fixed per group
    nfix = 6 if tier == "quick" else 4
    for fixed in itertools.product((0, 1), repeat=nfix):
        m = 12 - nfix
        gs.append({"name": "A-L2-%s" % "".join(map(str, fixed)), "fn": "check_a%d" % m,
                   "shape": {"cands": [[p, list(ch)] for p, ch in CAND2], "fixed": list(fixed)},
                   "cond_timeout": 600.0, "path_timeout": 60.0, "expect_space": 2 ** m, "weight": 2 ** m})
    for name in CATALOGUE:
        gs.append({"name": "R-%s" % name, "fn": "check_r5", "shape": {"dict": name, "cap": 2},
                   "cond_timeout": 900.0, "path_timeout": 60.0, "weight": 250})
        gs.append({"name": "M-%s" % name, "fn": "check_m", "shape": {"dict": name},
                   "cond_timeout": 900.0, "path_timeout": 120.0, "weight": 100})
        gs.append({"name": "S-%s" % name, "fn": "check_s5", "shape": {"dict": name, "cap": 2},
                   "cond_timeout": 900.0, "path_timeout": 60.0, "weight": 250})

    def addh(it, root, L, n, nfix, unary=False):
        nc = len(insertion_codes(L, unary))
        for fixed in itertools.product(range(nc), repeat=nfix):
            m = n - nfix
            gs.append({"name": "H%s-%s-r%d-L%d-n%d-%s" % ("u" if unary else "", "it" if it else "rec", root, L, n, "_".join(map(str, fixed))),
                       "fn": "check_h%d" % m, "shape": {"iterative": it, "root": root, "L": L, "fixed": list(fixed), "unary": unary},
                       "cond_timeout": 1800.0, "path_timeout": 60.0, "expect_space": nc ** m, "weight": nc ** m})

    if tier == "quick":
        for it in (False, True):
            for root in (0, 1):
                addh(it, root, 2, 3, 1)
            for root in (0, 1, 2):
                addh(it, root, 3, 2, 1)
            # three insertions over 3 labels restricted to verification / unary rules (equivalences and cycles)
            addh(it, 0, 3, 3, 1, unary=True)
    else:
        for it in (False, True):
            for root in (0, 1):
                addh(it, root, 2, 3, 1)
            for root in (0, 2):
                addh(it, root, 3, 3, 1)
        addh(False, 0, 2, 4, 1)
        addh(False, 1, 2, 4, 1)
        addh(True, 0, 2, 4, 1)
    # E: rule sequences recorded by real searches (default database), recursive and iterative packs, one-way rules, symmetries
    opts = ["plain", "iterative", "inferral", "symmetry", "factory2", "finite", "two", "oneway", "k"]
    if tier == "thorough":
        opts += ["inferral-symmetry", "two-inferral", "oneway-k", "finite-ev"]
    gs += [g for g in e2e.std_groups(tier, dbs=("base",), opts=opts, sched=False, rng=False, S3=(tier == "thorough")) if g["fn"] == "check_opt"]
    return gs


def selftest(tier):
    e2e.selftest_universe(tier)
    # reference fixed points against the definitions on a few hand-made dictionaries
    rd = {0: {(1, 2)}, 1: {()}, 2: {(0,), (3,)}}
    assert gfp_prune(rd) == {0: {(1, 2)}, 1: {()}, 2: {(0,)}}
    assert min_tree_size(rd, 0) == 4  # 0(1)(2(0))
    assert min_tree_size(cat_dict("two_sizes"), 0) == 3  # 0 -> (2) -> (1) -> ()
    assert iter_derivable({0: {(0, 1)}, 1: {()}}, 0) == {0, 1}
    assert iter_derivable({0: {(2, 1)}, 1: {()}, 2: {(2,)}}, 0) == {1}
    for name in CATALOGUE:
        ref = gfp_prune(cat_dict(name))
        assert 0 in ref, name
        sizes = sorted({len(t) for t in itertools.islice(proof_tree_generator_dfs(ref, 0), 300)})
        assert sizes[0] == min_tree_size(ref, 0), (name, sizes)
        assert len(sizes) >= 2, (name, sizes)  # the catalogue is only useful if several sizes exist
    return {"catalogue_dictionaries": len(CATALOGUE)}


def meta(tier):
    m = {
        "functions": [prune, iterative_prune, ts.proof_tree_dfs, ts.all_proof_trees_dfs, random_proof_tree,
                      smallish_random_proof_tree, proof_tree_generator_bfs, proof_tree_generator_dfs,
                      iterative_proof_tree_finder, RuleDBBase.add, RuleDBBase.pruned_dict.fget, RuleDBBase.rules_up_to_equivalence,
                      RuleDBBase.has_specification, RuleDBBase._get_specification_node, RuleDBBase._get_iterative_node,
                      RuleDBBase._get_smallish_node, RuleDBBase._get_smallest_node, Node.rule_keys],
        "bounds": {
            "quick": "A: all 4096 rule dictionaries over 2 labels with arity<=2, every root, every finder (generators capped at 300 "
                     "trees); R/S: 8 catalogue dictionaries x draw tapes of 5 draws in {0,1,2+}; M: maximum in [0,14]; "
                     "H: all histories of 3 insertions over 2 labels (16 insertion kinds: verification, two-way/one-way unary, binary) and of "
                     "2 insertions over 3 labels (39 kinds), every root, recursive and iterative, and of 3 insertions over 3 labels restricted to "
                     "verification/unary rules (21 kinds, root 0); has_specification after every add",
            "thorough": "as quick plus H: 3 insertions over 3 labels for roots 0 and 2 (both modes), 4 insertions over 2 labels (recursive roots 0,1; iterative root 0)",
        }[tier],
        "outside": ["dictionaries with more labels / arity than stated", "time-limited minimisation beyond 2 extra random trees",
                    "rules whose children the class database reports empty (C04)"],
        "stubs": ["stub searcher (classdb.is_empty=False, queue, pack.iterative, start_label) and stub rules for RuleDBBase",
                  "tree_searcher.time replaced by a clock advancing 1.0 per reading", "tree_searcher.choice/shuffle read a draw tape"],
        "assumptions": ["reference: SCC collapse (Floyd-Warshall, smallest label as representative) + greatest fixed point / bottom-up "
                        "derivation + exhaustive minimum tree size; validated natively during design on 69 613 database queries"],
    }
    m["bounds"] = str(m.get("bounds", "")) + " || end-to-end groups of this run: " + e2e.describe_groups(groups(tier))
    return m
