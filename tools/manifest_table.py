claim("C03",
      "Bounded symbolic execution of the real TableMethod: for every ordered rule list of the catalogue the shifts are "
      "solver variables; CrossHair/z3 close every feasible path and on each the table equals the reference least fixed "
      "point after every insertion. Exhaustive inside the bound (shapes, |shift|), nothing outside it.",
      "Trusted: CPython, CrossHair path bookkeeping, z3, the 25-line reference least-fixed-point evaluator (validated "
      "against tests/test_forest.py expectations at every run).",
      "CrossHair symbolic execution (pattern T: symbolic shifts) + z3", "DESIGN.md 2/C03")
claim("C06",
      "Bounded symbolic execution of the real EquivalenceDB over operation histories: the kinds of a history form the query "
      "group, all label arguments are solver variables; after every cycle detection the answers for all label pairs are "
      "compared with mutual reachability. CrossHair/z3 prove that no label vector inside the bound is left unexplored "
      "(cross-checked by a native tally of the vectors run).",
      "Trusted: CPython, CrossHair path bookkeeping (+tally cross-check), z3, Floyd-Warshall reference (validated against DFS).",
      "CrossHair symbolic execution (pattern D: solver-enumerated label vectors) + z3", "DESIGN.md 2/C06")
claim("C15",
      "Bounded symbolic execution of the real ClassDB over request histories (get_label / get_class / is_empty / set_empty "
      "on a pool of stub classes, three storage variants); every request is a solver variable, after each request all "
      "lookups and membership tests are compared with a reference dictionary. Exhaustive inside the bound.",
      "Trusted: CPython, CrossHair path bookkeeping (+tally cross-check), z3; stub classes honour the eq/hash and to_bytes/from_bytes contracts.",
      "CrossHair symbolic execution (pattern D: solver-enumerated request histories) + z3", "DESIGN.md 2/C15")
claim("C16",
      "Bounded symbolic execution of the real DefaultQueue over operation histories: the pack and first operation form the "
      "query group, every further operation is a solver variable; the queue is drained and the complete hand-out stream is "
      "compared with the documented schedule (no work after stop, no repetition, inferral/initial/sets in order, repeated "
      "exhaustion, do_level contract). Exhaustive inside the bound.",
      "Trusted: CPython, CrossHair path bookkeeping (+tally cross-check), z3, the schedule oracle (validated on the pinned tree).",
      "CrossHair symbolic execution (pattern D: solver-enumerated operation histories) + z3", "DESIGN.md 2/C16")
claim("C05",
      "Bounded symbolic execution of the real prune / iterative_prune / proof-tree finders and of RuleDB fed through a stub "
      "searcher. Solver variables: which candidate rules are present (all dictionaries over 2 labels, arity<=2), the draw tape "
      "of the random finders, the `maximum` of the depth-first generator (code traced), and every insertion of a history into "
      "the rule database (has_specification compared with SCC-collapse + fixed point after every add; smallest tree compared "
      "with the exhaustive minimum). Exhaustive inside the bound.",
      "Trusted: CPython, CrossHair path bookkeeping (+tally cross-check), z3, the reference fixed points / minimum tree size "
      "(validated in selftest); stub searcher and stub rules for RuleDBBase; clock and random replaced by shims.",
      "CrossHair symbolic execution (pattern D decision variables; pattern T for `maximum`) + z3", "DESIGN.md 2/C05")
claim("C09",
      "Bounded symbolic execution of the real Rule / ReverseRule / EquivalenceRule / EquivalencePathRule and the four constructors "
      "on stub classes: for each configuration of a catalogue (arity, statistic maps, minimum sizes, atom/empty flags) the "
      "children's term tables are solver variables; CrossHair/z3 close all paths and prove on each that the real code reproduces "
      "the parent's true table (forward) or recovers the counted child (reverse / equivalence / path forms). "
      "Quotient-with-statistics configurations cross into sympy and are run with every table entry forked (pattern D).",
      "Trusted: CPython, CrossHair, z3, the reference semantics of a genuine union/product with statistic maps (~40 lines, validated on word counts).",
      "CrossHair symbolic execution (pattern T: symbolic term tables) + z3", "DESIGN.md 2/C09")
claim("C10",
      "Three solver-backed obligations: (a) the real shift arithmetic (product/union/reverse shifts, Quotient's parent shift) is "
      "run on z3 integer terms and the algebraic read-bound claims are discharged as validity queries for unbounded minimum sizes, "
      "arity<=4, also with the same class object in several positions (cross-checked on z3 4.8.12); (b) CrossHair closes all paths of the real utils.compositions against its contract; "
      "(c) with minimum sizes as solver variables every request the real rule forms make to instrumented sub-term providers is "
      "checked against n - declared shift.",
      "Trusted: CPython, z3 (two versions), CrossHair; (a) treats compositions' contract as proved by (b); stub classes/strategies.",
      "direct z3 validity queries on the real arithmetic + CrossHair symbolic execution", "DESIGN.md 2/C10")
claim("C08",
      "Bounded symbolic execution of the real samplers with the random source as a solver variable: for DisjointUnion the counts "
      "are unbounded integers and z3 proves on every path that the child descended into is the one whose prefix-sum bracket contains "
      "the draw (=> probability c_i/total), with the skip rules and parameter mapping checked; for CartesianProduct the library's "
      "enumeration of size/statistic splits is compared with an independent one and the bracket property is proved for symbolic "
      "counts; the final choice among preimages is checked for every draw.",
      "Trusted: CPython, CrossHair, z3; sub-counters return true counts; uniformity of a whole specification is the composition of "
      "the per-rule results (argued in DESIGN.md) and is additionally exercised end-to-end under C01's group.",
      "CrossHair symbolic execution (pattern T: symbolic counts and draws, unbounded for unions) + z3", "DESIGN.md 2/C08")
claim("C07",
      "Bounded symbolic execution of the real object-generation code (Rule._ensure_level_objects, get_sub_objects, compositions, "
      "forward/backward maps of plain, equivalence, reverse-of-equivalence and path rules) on stub classes: the number of objects "
      "of every (child, size, statistic value) is a solver variable; on every path the generated multiset equals the reference "
      "multiset (each object once, right statistic), its size equals the count the same rule reports, and object->parts->object "
      "round-trips with parts in the right child. Verification rules are asked sizes in every order. Fault schedule: the number of the "
      "provider call that raises is a solver variable; the same rule asked again must still generate exactly the reference.",
      "Trusted: CPython, CrossHair, z3, reference object semantics of a genuine union/product; stub classes/strategies. Whole "
      "specifications (objects of real universes) are exercised under C01's end-to-end group.",
      "CrossHair symbolic execution (pattern T: symbolic object-list lengths) + z3", "DESIGN.md 2/C07")
claim("C11",
      "Bounded symbolic execution of the real ForestRuleExtractor (and the TableMethod it re-runs) behind a stub rule database: "
      "for every ordered rule list of the catalogue every shift and every bucket is a solver variable; whenever the root pumps the "
      "extracted keys are compared with the reference least fixed point (subset, productive, one rule per class, closed, 1-minimal, "
      "reverse only if unavoidable). Exhaustive inside the bound; turning keys back into rules is checked on real searches in the "
      "end-to-end group.",
      "Trusted: CPython, CrossHair path bookkeeping (+tally cross-check), z3, reference least fixed point (validated in C03).",
      "CrossHair symbolic execution (pattern D: solver-enumerated shifts/buckets per shape) + z3", "DESIGN.md 2/C11")
claim("C01",
      "Bounded symbolic execution of whole searches: one CrossHair path = one run of the real searcher on a concrete regular-"
      "language universe; the solver variables are the DFA table, the position of a late clock reading (time-slicing of the "
      "expand/search loop) and the draw tape (choice of proof tree); groups = rule database x option set. z3 proves that no "
      "value of the variables inside the bound is left unexplored; on every path the returned specification's counts (all sizes "
      "<=6, all statistic values) equal brute force. Every decision is realised (the solver enumerates); the per-rule "
      "recurrences are covered symbolically by C09.",
      "Trusted: CPython, CrossHair path bookkeeping (+tally cross-check), z3, brute force through the DFA; clock/random shims; REG "
      "strategies honour the strategy contracts (self-test).",
      "CrossHair symbolic execution (pattern D: solver-enumerated universes, schedules, draws) + z3", "DESIGN.md 2/C01")
claim("C02",
      "Same bounded exploration as C01 with a structural oracle: every returned specification is taken apart by independent code - "
      "closure, one rule per class (also inside equivalence paths), every rule re-derived from the pack's strategies, empty rules "
      "only for truly empty classes, productivity by the reference least fixed point with shifts recomputed from brute-force "
      "minimum sizes.",
      "Trusted: as C01 plus the reference least-fixed-point evaluator.",
      "CrossHair symbolic execution (pattern D: solver-enumerated universes, schedules, draws) + z3", "DESIGN.md 2/C02")
claim("C04",
      "Same bounded exploration as C01 with a recording rule database: ruledb.add and ClassDB.get_label of the searcher under test "
      "are wrapped before its constructor runs; every insertion of every explored run is judged by independent code - the rule is "
      "what a pack strategy produces on the class carrying the parent label, child labels are the labels of the children in order, "
      "children are dropped only if truly empty (brute force) and possibly_empty, labels and classes are in bijection, cached "
      "emptiness is right, the forest database gets one explicit empty rule per empty child.",
      "Trusted: as C01; the recorder only observes (it forwards every call unchanged).",
      "CrossHair symbolic execution (pattern D: solver-enumerated universes and schedules) + z3", "DESIGN.md 2/C04")
claim("C14",
      "Same bounded exploration as C01 (default flavour); every insertion of every explored run is mirrored, in order, into a RuleDB "
      "and a RuleDBForgetStrategy linked to the same searcher, and the two are compared after every single insertion (stored rules, "
      "verified labels, has_specification, membership of the inserted key and perturbations); at the end a membership grid and "
      "re-application of every stored strategy of a non-empty class.",
      "Trusted: as C01; mirrors share the searcher's class database (their only side effect is a repeated set_stop_yielding).",
      "CrossHair symbolic execution (pattern D: solver-enumerated universes and schedules) + z3", "DESIGN.md 2/C14")
claim("C17",
      "Bounded symbolic execution with the clock as the solver variable: auto_search(max_expansion_time) runs under one shared "
      "clock with a late reading at a symbolic position, so z3 enumerates every reading position of the run and the time limit "
      "strikes after every reachable work packet; at each interruption point the searcher is pickled and restored, original and "
      "copy are continued alike and must be equal, go through the same packets, build the same universe and give the same answers; "
      "the final specification passes the C01/C02 oracles; pickling after 0..3 level-wise steps likewise.",
      "Trusted: as C01; pickle (C boundary) runs on concrete state; packet stream observed by a class-level wrapper of _expand.",
      "CrossHair symbolic execution (pattern D: solver-enumerated interruption points) + z3", "DESIGN.md 2/C17")
claim("C18",
      "Bounded symbolic execution: (a) strategy kind and the four setting bits are solver variables - each of the 160 combinations is "
      "round-tripped through JSON and compared (equality must depend on kind and settings only, incl. instances created from a "
      "subscripted alias); 72 ordered pairs of same-class strategies with own settings are loaded one after the other in one process; "
      "(b) all packs of the option catalogue; (c) the exploration of C01: every returned specification is dumped, reloaded and compared "
      "(equality, rule per class, each rule form's own round trip, counts, objects, equations); bijections are round-tripped in C12.",
      "Trusted: as C01; json is a C boundary so all data crossing it is concrete - the solver's part is covering the decision space.",
      "CrossHair symbolic execution (pattern D: solver-enumerated settings, universes) + z3", "DESIGN.md 2/C18")
claim("C12",
      "Bounded symbolic execution over pairs of universes: the two indices of a pair are solver variables (all ordered pairs of the "
      "64 two-state REG tables, of 17 binary and 12 ternary pattern sets of the word example); on every path both specifications are "
      "found by the real searcher, the isomorphism test is run in both orders and reflexively, and a constructed bijection is applied "
      "to every brute-force object up to size 5 (image = second class, injective, inverse both ways), again after a JSON round trip. "
      "Plus traced checks of the permutation inverse and the parameter-dictionary equivalence.",
      "Trusted: as C01; brute-force word enumeration for the repository's word example.",
      "CrossHair symbolic execution (pattern D: solver-enumerated pairs) + z3", "DESIGN.md 2/C12")
claim("C13",
      "Bounded symbolic execution over pairs of searchers: pair indices are solver variables, groups = finder variant x pack (plain, "
      "symmetry, inferral: start class inside a non-trivial equivalence class); on every path two fresh searchers go through the real "
      "finder, which must answer None or two specifications that count their own start class correctly, pass the C02 oracle and are "
      "isomorphic - and never raise.",
      "Trusted: as C01. Four genuine defects of the finders are recorded (not repaired) in known_findings.json, identified by their exact "
      "input pairs; they are skipped inside the exploration, replayed at every run and printed as KNOWN-FINDING lines; any other failing "
      "pair is a VIOLATION.", "CrossHair symbolic execution (pattern D: solver-enumerated pairs) + z3", "DESIGN.md 2/C13, 3")
claim("C19",
      "Bounded symbolic execution: the DFA table is the solver variable (two-state tables, 512 four-state and 1152 five-state tables "
      "with finite sub-languages), groups = database that produced the original x pack with a pack-offering verification strategy "
      "(nesting: the offered pack verifies deeper classes; mixed: the same strategy declines a pack for some classes; 128 five-state "
      "tables where a merged copy of the start state puts an equivalence path next to the verified classes). On every path "
      "expand_verified() runs for real and the result is checked with the C01 and C02 oracles, for leftover pack-offering verified "
      "classes, for rule objects shared with the original, and the original is re-checked.",
      "Trusted: as C01.", "CrossHair symbolic execution (pattern D: solver-enumerated universes) + z3", "DESIGN.md 2/C19")
claim("C20",
      "(a) direct z3 validity queries: the real get_equation of every rule form of the C09 configuration catalogue is called and the "
      "returned sympy equation is interpreted in a polynomial ring whose coefficients are z3 integer unknowns (children) and the "
      "reference semantics (parent); every coefficient identity is proved for all integer tables (cross-checked on z3 4.8.12). "
      "(b) bounded exploration as C01: every equation of every returned specification is checked against brute-force series to "
      "order 8, closed forms from get_genf to order 16.",
      "Trusted: z3 (two versions), CrossHair, the ~80-line polynomial evaluator (validated on the equations tests/test_rule.py compares), "
      "sympy's solve/series for closed forms, brute force through the DFA.",
      "direct z3 validity queries on the real equations + CrossHair symbolic execution (pattern D)", "DESIGN.md 2/C20")
