import itertools
def shapes(L, R, maxar):
    rules = []
    for p in range(L):
        for k in range(maxar+1):
            for ch in itertools.product(range(L), repeat=k):
                rules.append((p, ch))
    seen = set(); out = []
    for r in range(1, R+1):
        for combo in itertools.product(rules, repeat=r):
            # canonical under label renaming
            best = None
            for perm in itertools.permutations(range(L)):
                c = tuple((perm[p], tuple(perm[x] for x in ch)) for p, ch in combo)
                if best is None or c < best: best = c
            if best in seen: continue
            seen.add(best)
            nsym = sum(len(ch) for _, ch in combo)
            out.append((combo, nsym))
    return out
for L,R,a in [(2,2,2),(2,3,2),(3,3,2),(2,3,3)]:
    s = shapes(L,R,a)
    import collections
    c = collections.Counter(n for _, n in s)
    print(L,R,a,len(s), sorted(c.items()))
