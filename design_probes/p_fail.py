from typing import List, Tuple
def check(a: int, ops: List[Tuple[int, int]]) -> bool:
    """
    pre: 0 <= a < 5 and len(ops) <= 2
    post: _
    """
    return not (a == 3 and len(ops) == 1 and ops[0][0] == 7)
