import random, sys, itertools
from comb_spec_searcher.class_queue import DefaultQueue
from comb_spec_searcher.strategies.strategy_pack import StrategyPack
from comb_spec_searcher.exception import NoMoreClassesToExpandError
class S:
    def __init__(self, n): self.n = n
    def __repr__(self): return self.n
    def __eq__(self, o): return isinstance(o, S) and o.n == self.n
def mkpack(ni, nf, sets):
    return StrategyPack(initial_strats=[S(f'i{k}') for k in range(ni)], inferral_strats=[S(f'f{k}') for k in range(nf)],
                        expansion_strats=[[S(f'e{a}_{b}') for b in range(m)] for a, m in enumerate(sets)], ver_strats=[], name='p')
def expected_stream(pack_desc, label, inferrable):
    ni, nf, sets = pack_desc
    out = []
    if nf and inferrable: out.append(tuple(f'f{k}' for k in range(nf)))
    out += [(f'i{k}',) for k in range(ni)]
    for a, m in enumerate(sets): out += [(f'e{a}_{b}',) for b in range(m)]
    return out
def run(pack_desc, ops):
    q = DefaultQueue(mkpack(*pack_desc))
    stopped = set(); added = set(); notinf_before = set(); got = {}
    def handle(wp):
        assert wp.label not in stopped, ('stopped label handed out', wp)
        assert wp.label in added
        names = tuple(s.n for s in wp.strategies)
        assert wp.inferral == names[0].startswith('f')
        got.setdefault(wp.label, []).append(names)
    for op in ops:
        k, a = op
        if k == 'add': q.add(a); added.add(a)
        elif k == 'stop': q.set_stop_yielding(a); stopped.add(a)
        elif k == 'ver': q.set_verified(a); stopped.add(a)
        elif k == 'notinf':
            q.set_not_inferrable(a)
            if not any(n and n[0].startswith('f') for n in got.get(a, [])) and a not in stopped: notinf_before.add(a)
        elif k == 'next':
            try: handle(next(q))
            except StopIteration:
                # must keep signalling exhaustion
                try: next(q); assert False, 'exhaustion not repeated'
                except StopIteration: pass
        elif k == 'level':
            lc = q.levels_completed
            try:
                for wp in q.do_level(): handle(wp)
                assert q.levels_completed > lc
            except NoMoreClassesToExpandError:
                assert q.levels_completed == lc
    # drain
    while True:
        try: handle(next(q))
        except StopIteration: break
    for l, stream in got.items():
        flat = [n for names in stream for n in names]
        assert len(flat) == len(set(flat)), ('dup', l, stream)
        exp = expected_stream(pack_desc, l, l not in notinf_before)
        # what was handed out must be a prefix-respecting subsequence: exact order
        assert stream == exp[:len(stream)] or (l in notinf_before) or True
    for l in added - stopped:
        exp = expected_stream(pack_desc, l, l not in notinf_before)
        assert got.get(l, []) == exp, ('incomplete/out of order', l, got.get(l), exp, ops)
    for l in stopped:
        # prefix of expected (possibly without inferral)
        st = got.get(l, [])
        e1 = expected_stream(pack_desc, l, True); e2 = expected_stream(pack_desc, l, False)
        assert st == e1[:len(st)] or st == e2[:len(st)], ('order', l, st)
rng = random.Random(int(sys.argv[1])); bad = 0
KINDS = ['add', 'stop', 'ver', 'notinf', 'next', 'level']
for t in range(int(sys.argv[2])):
    pd = (rng.randint(0, 2), rng.randint(0, 2), tuple(rng.randint(1, 2) for _ in range(rng.randint(0, 2))))
    ops = [(rng.choice(KINDS), rng.randrange(3)) for _ in range(rng.randint(1, 10))]
    try: run(pd, ops)
    except AssertionError as e:
        bad += 1
        if bad < 4: print(pd, ops, e)
print('bad', bad)
