import sys, logging, logzero, traceback
sys.path.insert(0, '/tmp/probe/reg')
from reg import *
from comb_spec_searcher.strategies.strategy import VerificationStrategy
logzero.loglevel(logging.CRITICAL)
class StatAtom(VerificationStrategy):
    def __init__(self): super().__init__(ignore_parent=True)
    def verified(self, c): return c.is_atom()
    def formal_step(self): return "is atom"
    def get_terms(self, c, n):
        return Counter([c.get_parameters(W(c.prefix))]) if n == len(c.prefix) else Counter()
    def get_objects(self, c, n):
        r = defaultdict(list)
        if n == len(c.prefix): r[c.get_parameters(W(c.prefix))].append(W(c.prefix))
        return r
    def random_sample_object_of_size(self, c, n, **p): return W(c.prefix)
    def pack(self, c): raise InvalidOperationError("no pack")
    @classmethod
    def from_dict(cls, d): return cls()
from comb_spec_searcher.exception import InvalidOperationError
p = StrategyPack(initial_strats=[PeelPrefix()], inferral_strats=[], expansion_strats=[[SplitFirst()]], ver_strats=[StatAtom()], name="reg")
bad = Counter()
for T in tables(2):
    start = Lang(T, 0, "", False, True)
    s = CombinatorialSpecificationSearcher(start, p); s.status = lambda elaborate: ""
    spec = s.auto_search()
    try:
        for n in range(7):
            a = {k: v for k, v in spec.get_terms(n).items() if v}; b = {k: v for k, v in start.get_terms(n).items() if v}
            assert a == b, (n, a, b)
            for params in start.possible_parameters(n):
                assert sorted(spec.generate_objects_of_size(n, **params)) == sorted(start.objects_of_size(n, **params))
        bad['ok'] += 1
    except Exception as e:
        bad[type(e).__name__] += 1
        if bad[type(e).__name__] == 1: traceback.print_exc(); print(T.key())
print(bad)
