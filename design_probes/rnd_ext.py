import random, sys
import p_tm
from comb_spec_searcher.rule_db.forest import TableMethod, ForestRuleExtractor
from comb_spec_searcher.typing import ForestRuleKey, RuleBucket
import logzero, logging
logzero.loglevel(logging.CRITICAL)
B = [RuleBucket.VERIFICATION, RuleBucket.EQUIV, RuleBucket.NORMAL, RuleBucket.REVERSE]
class Stub: pass
def main(seed, N, L, R, S):
    rng = random.Random(seed); stats = {}
    for t in range(N):
        l = rng.randint(1, L); r = rng.randint(1, R); s = rng.randint(1, S)
        rules = []
        for _ in range(r):
            p = rng.randrange(l); k = rng.randrange(0, 3)
            ch = tuple(rng.randrange(l) for _ in range(k)); sh = tuple(rng.randint(-s, s) for _ in range(k))
            rules.append(ForestRuleKey(p, ch, sh, rng.choice(B)))
        tm = TableMethod()
        for rk in rules: tm.add_rule_key(rk)
        root = 0
        if not tm.is_pumping(root): continue
        stub = Stub(); stub.table_method = tm
        try:
            ex = ForestRuleExtractor(root, stub, None, None)
            ex.check()
        except AssertionError as e:
            k = 'assert'; stats[k] = stats.get(k, 0) + 1
            if stats[k] < 4: print('ASSERT', rules)
            continue
        need = ex.needed_rules
        ref = p_tm.lfp([(x.parent, x.children, x.shifts) for x in need], l, s)
        ok = ref.get(root, 0) is None
        lhs = [x.parent for x in need]
        closed = all(c in lhs for x in need for c in x.children)
        minimal = all(p_tm.lfp([(x.parent, x.children, x.shifts) for j, x in enumerate(need) if j != i], l, s).get(root, 0) is not None for i in range(len(need)))
        rev_needed = any(x.bucket == RuleBucket.REVERSE for x in need)
        norev = p_tm.lfp([(x.parent, x.children, x.shifts) for x in rules if x.bucket != RuleBucket.REVERSE], l, s).get(root, 0) is None
        k = (ok, len(set(lhs)) == len(lhs), closed, minimal, (not rev_needed) or (not norev))
        stats[k] = stats.get(k, 0) + 1
        if k != (True,)*5 and stats[k] < 3: print(k, rules, need)
    print(stats)
main(int(sys.argv[1]), int(sys.argv[2]), 4, 7, 3)
