import sys, time, importlib, collections
from crosshair.core_and_libs import analyze_function, run_checkables
from crosshair.options import AnalysisOptionSet
mod = importlib.import_module(sys.argv[1]); fn = getattr(mod, sys.argv[2])
stats = collections.Counter()
opts = AnalysisOptionSet(per_condition_timeout=30.0, per_path_timeout=10.0, report_all=True, stats=stats)
msgs = run_checkables(analyze_function(fn, opts))
for m in msgs:
    print(m.state, repr(m.message)); print({k: getattr(m, k) for k in ('filename','line','column','traceback','test_fn','condition_src') if hasattr(m, k)})
print(dict(stats))
