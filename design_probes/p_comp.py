from typing import Optional
from comb_spec_searcher.utils import compositions
def check(n: int, m0: int, m1: int, m2: int, x0: int, x1: int) -> bool:
    """
    pre: 0 <= n <= 5 and 0 <= m0 <= 2 and 0 <= m1 <= 2 and 0 <= m2 <= 2 and -1 <= x0 <= 3 and -1 <= x1 <= 3
    post: _
    """
    mins = (m0, m1, m2)
    maxs = (None if x0 < 0 else x0, None if x1 < 0 else x1, None)
    if any(M is not None and M < m for m, M in zip(mins, maxs)): return True
    seen = []
    for c in compositions(n, 3, mins, maxs):
        if sum(c) != n: return False
        for ci, m, M in zip(c, mins, maxs):
            if ci < m or (M is not None and ci > M): return False
        if c in seen: return False
        seen.append(c)
    # completeness
    cnt = 0
    for a in range(0, 6):
        for b in range(0, 6):
            cc = n - a - b
            t = (a, b, cc)
            if cc >= 0 and all(ci >= m and (M is None or ci <= M) for ci, m, M in zip(t, mins, maxs)):
                cnt += 1
    return cnt == len(seen)
