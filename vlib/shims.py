"""Environment shims: one shared clock and a draw tape replacing `time` / `random` inside the
repository's modules.  Every shim is part of the claim (listed in the evidence)."""
import contextlib
import importlib
from typing import Any, List, Sequence

from vlib.core import ResumedTracing

TIME_MODULES = [
    "comb_spec_searcher.comb_spec_searcher",
    "comb_spec_searcher.class_db",
    "comb_spec_searcher.rule_db.forest",
    "comb_spec_searcher.tree_searcher",
    "comb_spec_searcher.utils",
]


class Clock:
    """time.time() replacement: advances 1.0 per reading, plus `jump` at each reading whose index is in
    `jumps` (solver variables compared with the reading counter under resumed tracing).
    Contract assumed of the real clock: non-decreasing."""

    def __init__(self, jumps: Sequence[Any] = (), jump: float = 5000.0, step: float = 1.0):
        self.jumps = list(jumps)
        self.i = 0
        self.t = 1000.0
        self.jump = jump
        self.step = step
        self.late_at: List[int] = []

    def time(self) -> float:
        hit = False
        if self.jumps:
            with ResumedTracing():
                for j in list(self.jumps):
                    if j == self.i:
                        hit = True
                        self.jumps.remove(j)  # decided: no further comparison (= solver call) for this variable
        if hit:
            self.t += self.jump
            self.late_at.append(self.i)
        self.i += 1
        self.t += self.step
        return self.t

    # some modules call time.perf_counter / monotonic? (none in the pinned tree) - keep aliases anyway
    perf_counter = time
    monotonic = time


class Tape:
    """Draw tape for random choices.  draw(cap) returns the next tape entry as a builtin int in
    [0, cap); entries are solver variables (forked here); beyond the tape every draw is 0."""

    def __init__(self, draws: Sequence[Any] = ()):
        self.d = list(draws)
        self.i = 0
        self.used: List[int] = []

    def draw(self, cap: int) -> int:
        if cap <= 1:
            r = 0
        elif self.i >= len(self.d):
            r = 0
        else:
            v = self.d[self.i]
            r = cap - 1
            with ResumedTracing():
                for k in range(cap - 1):
                    if v == k:
                        r = k
                        break
        self.i += 1
        self.used.append(r)
        return r

    # replacements with the signatures of the random module
    def choice(self, seq):
        return seq[self.draw(len(seq))]

    def shuffle(self, x):
        for i in reversed(range(1, len(x))):
            j = self.draw(i + 1)
            x[i], x[j] = x[j], x[i]

    def randint(self, a, b):
        return a + self.draw(b - a + 1)


@contextlib.contextmanager
def patched_env(clock: Clock = None, tape: Tape = None):
    """Install the shared clock into every repository module that does `import time`, and the tape into
    the modules that import random functions.  Restores on exit."""
    saved = []
    try:
        if clock is not None:
            for name in TIME_MODULES:
                m = importlib.import_module(name)
                if hasattr(m, "time"):
                    saved.append((m, "time", m.time))
                    m.time = clock
        if tape is not None:
            ts = importlib.import_module("comb_spec_searcher.tree_searcher")
            for attr, fn in (("choice", tape.choice), ("shuffle", tape.shuffle)):
                saved.append((ts, attr, getattr(ts, attr)))
                setattr(ts, attr, fn)
            dj = importlib.import_module("comb_spec_searcher.strategies.constructor.disjoint")
            if hasattr(dj, "randint"):
                saved.append((dj, "randint", dj.randint))
                dj.randint = tape.randint
            for name in ("comb_spec_searcher.strategies.constructor.cartesian", "comb_spec_searcher.strategies.rule",
                         "comb_spec_searcher.strategies.strategy", "comb_spec_searcher.specification"):
                m = importlib.import_module(name)
                if hasattr(m, "random"):
                    saved.append((m, "random", m.random))
                    m.random = tape
                for attr, fn in (("randint", tape.randint), ("choice", tape.choice), ("shuffle", tape.shuffle)):
                    if hasattr(m, attr) and callable(getattr(m, attr)) and getattr(getattr(m, attr), "__module__", "") == "random":
                        saved.append((m, attr, getattr(m, attr)))
                        setattr(m, attr, fn)
        yield
    finally:
        for m, attr, val in reversed(saved):
            setattr(m, attr, val)
