import logzero, logging
from rnd_rdb import *
db = RuleDB(); db.link_searcher(Searcher(False, 0))
db.add(0, (1,), StubRule(1, False)); db.add(1, (), VR()); db.add(1, (0,), StubRule(1, False))
print('first call', db.has_specification(), 'second call', db.has_specification(), 'rep of root', db.equivdb[0])
