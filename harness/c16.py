"""C16 - the work queue schedules every class completely, once, in order, and terminates.

Pattern D.  A query group fixes the pack (numbers of inferral / initial strategies and sizes of the
expansion sets) and the first operation; every further operation of the history (add / stop-yielding /
verified / not-inferrable on a label, next, do_level) is a solver variable forked at the top of the
harness.  The real ``DefaultQueue`` runs the history and is then drained; the hand-out stream is
compared with the schedule the property describes.
"""
import itertools

from comb_spec_searcher.class_queue import DefaultQueue
from comb_spec_searcher.exception import NoMoreClassesToExpandError
from comb_spec_searcher.strategies.strategy_pack import StrategyPack

from vlib import core
from vlib.core import NoTracing, pick

LAST_FAILURE = None
NL = 2       # labels
NCODES = 10  # 4*NL + 2


def on_shape(shape):
    global NL, NCODES
    NL = shape["labels"]
    NCODES = 4 * NL + 2


class Bad(Exception):
    pass


class S:
    """Marker strategy (the queue only stores and hands out strategies)."""

    def __init__(self, n):
        self.n = n

    def __repr__(self):
        return self.n

    def __eq__(self, o):
        return isinstance(o, S) and o.n == self.n

    def __hash__(self):
        return len(self.n)


def mkpack(ni, nf, sets):
    return StrategyPack(initial_strats=[S("i%d" % k) for k in range(ni)], inferral_strats=[S("f%d" % k) for k in range(nf)],
                        expansion_strats=[[S("e%d_%d" % (a, b)) for b in range(m)] for a, m in enumerate(sets)],
                        ver_strats=[], name="p")


def expected_stream(pack_desc, inferrable):
    ni, nf, sets = pack_desc
    out = []
    if nf and inferrable:
        out.append(tuple("f%d" % k for k in range(nf)))
    out += [("i%d" % k,) for k in range(ni)]
    for a, m in enumerate(sets):
        out += [("e%d_%d" % (a, b),) for b in range(m)]
    return out


def decode(v, NL):
    if v < 4 * NL:
        return ("add", "stop", "ver", "notinf")[v // NL], v % NL
    return ("next", "level")[v - 4 * NL], 0


def run(pack_desc, codes, NL):
    q = DefaultQueue(mkpack(*pack_desc))
    stopped = set()
    added = set()
    notinf_before = set()
    got = {}

    def handle(wp):
        if wp.label in stopped:
            raise Bad("work handed out for stopped label: %r" % (wp,))
        if wp.label not in added:
            raise Bad("work handed out for a label never added: %r" % (wp,))
        names = tuple(s.n for s in wp.strategies)
        if wp.inferral != names[0].startswith("f"):
            raise Bad("inferral flag wrong: %r" % (wp,))
        got.setdefault(wp.label, []).append(names)

    def next_must_stop():
        try:
            wp = next(q)
        except StopIteration:
            return
        raise Bad("exhaustion was signalled, then %r was handed out although nothing was added" % (wp,))

    for v in codes:
        k, a = decode(v, NL)
        if k == "add":
            q.add(a)
            added.add(a)
        elif k == "stop":
            q.set_stop_yielding(a)
            stopped.add(a)
        elif k == "ver":
            q.set_verified(a)
            stopped.add(a)
        elif k == "notinf":
            q.set_not_inferrable(a)
            if not any(n and n[0].startswith("f") for n in got.get(a, [])) and a not in stopped:
                notinf_before.add(a)
        elif k == "next":
            try:
                handle(next(q))
            except StopIteration:
                next_must_stop()
        else:
            lc = q.levels_completed
            try:
                for wp in q.do_level():
                    if q.levels_completed != lc and False:
                        pass
                    handle(wp)
                if not q.levels_completed > lc:
                    raise Bad("do_level ended without the level counter advancing")
            except NoMoreClassesToExpandError:
                if q.levels_completed != lc:
                    raise Bad("NoMoreClassesToExpandError although the level counter advanced")
    steps = 0
    while True:
        try:
            handle(next(q))
        except StopIteration:
            break
        steps += 1
        if steps > 200:
            raise Bad("queue does not terminate")
    next_must_stop()
    for l, stream in got.items():
        flat = [n for names in stream for n in names]
        if len(flat) != len(set(flat)):
            raise Bad("same (label, strategy) handed out twice: label %d %r" % (l, stream))
    for l in added - stopped:
        exp = expected_stream(pack_desc, l not in notinf_before)
        if got.get(l, []) != exp:
            raise Bad("label %d received %r, expected %r" % (l, got.get(l), exp))
    for l in stopped:
        st = got.get(l, [])
        e1 = expected_stream(pack_desc, True)
        e2 = expected_stream(pack_desc, False)
        if not (st == e1[:len(st)] or st == e2[:len(st)]):
            raise Bad("label %d (stopped) received out of order %r" % (l, st))
    return True


def _body(vs):
    global LAST_FAILURE
    sh = core.SHAPE
    codes = tuple(sh.get("fixed", [])) + tuple(pick(v, 0, NCODES - 1) for v in vs)
    with NoTracing():
        core.tally(codes)
        pd = (sh["pack"][0], sh["pack"][1], tuple(sh["pack"][2]))
        try:
            return run(pd, codes, sh["labels"])
        except Bad as e:
            LAST_FAILURE = "%s | history %r" % (e, [decode(c, sh["labels"]) for c in codes])
            return False


def _inb(*vs):
    for v in vs:
        if not (0 <= v < NCODES):
            return False
    return True


def check_q1(a: int) -> bool:
    """
    pre: _inb(a)
    post: _
    """
    return core.final(_body((a,)))


def check_q2(a: int, b: int) -> bool:
    """
    pre: _inb(a, b)
    post: _
    """
    return core.final(_body((a, b)))


def check_q3(a: int, b: int, c: int) -> bool:
    """
    pre: _inb(a, b, c)
    post: _
    """
    return core.final(_body((a, b, c)))


def check_q4(a: int, b: int, c: int, d: int) -> bool:
    """
    pre: _inb(a, b, c, d)
    post: _
    """
    return core.final(_body((a, b, c, d)))


def check_q5(a: int, b: int, c: int, d: int, e: int) -> bool:
    """
    pre: _inb(a, b, c, d, e)
    post: _
    """
    return core.final(_body((a, b, c, d, e)))


PACKS = {
    "P1": (1, 1, (1,)),
    "P2": (2, 0, (2, 1)),
    "P3": (0, 1, (1,)),
    "P4": (0, 0, (1, 1)),
    "P5": (1, 2, ()),
    "P6": (2, 2, (1, 2)),
}


def groups(tier):
    gs = []

    def add(pname, labels, n, firsts=None, nfix=1, timeout=1200.0):
        nc = 4 * labels + 2
        fx = [(f,) for f in firsts] if firsts is not None else list(itertools.product(range(nc), repeat=nfix))
        for fixed in fx:
            m = n - len(fixed)
            gs.append({"name": "%s-L%d-n%d-%s" % (pname, labels, n, "_".join(map(str, fixed))), "fn": "check_q%d" % m,
                       "shape": {"pack": [PACKS[pname][0], PACKS[pname][1], list(PACKS[pname][2])], "labels": labels,
                                 "fixed": list(fixed)},
                       "cond_timeout": timeout, "path_timeout": 30.0, "expect_space": nc ** m, "weight": nc ** m})

    if tier == "quick":
        for p in ("P1", "P2", "P3"):
            add(p, 2, 4)
        add("P4", 2, 3)
        add("P1", 2, 5, firsts=[0])
    else:
        for p in ("P1", "P2", "P3", "P6"):
            add(p, 2, 5)
        for p in ("P4", "P5"):
            add(p, 2, 4)
        for p in ("P1", "P2", "P3"):
            add(p, 3, 4)
    return gs


def selftest(tier):
    # the oracle accepts the schedule documented in the queue's docstrings on a hand-made history
    assert run((1, 1, (1,)), (0, 8, 8, 8, 8), 2)
    return {}


def meta(tier):
    return {
        "functions": [DefaultQueue.add, DefaultQueue.set_verified, DefaultQueue.set_not_inferrable, DefaultQueue.set_not_initial,
                      DefaultQueue.set_stop_yielding, DefaultQueue.can_do_inferral, DefaultQueue.can_do_initial,
                      DefaultQueue._populate_staging, DefaultQueue._change_level, DefaultQueue._iter_helper_curr,
                      DefaultQueue._iter_helper_working, DefaultQueue.__next__, DefaultQueue.do_level],
        "bounds": {"quick": "all histories of 4 operations (add/stop/verified/not-inferrable on 2 labels, next, do_level) for three packs "
                            "(1 inferral+1 initial+1 set; 2 initial+sets of 2,1; inferral only+1 set), of 3 operations for a pack with "
                            "two sets only, and of 5 operations starting with add(0) for the first pack; each followed by a complete drain",
                   "thorough": "5 operations x 4 packs and 4 operations x 2 packs over 2 labels; 4 operations x 3 packs over 3 labels"}[tier],
        "outside": ["longer histories, more labels", "user-supplied CSSQueue subclasses", "status() strings"],
        "stubs": ["marker strategies (the queue never calls a strategy)"],
        "assumptions": ["schedule oracle of ~60 lines (run), validated during design on 50 000 random histories against the pinned tree"],
    }
