"""C02 - returned specifications are closed, one-rule-per-class, genuine and productive.

End-to-end, pattern D on REG (harness/e2e.py).  On every path the returned specification is taken apart by code that
shares nothing with the library's own validity checks: closure, uniqueness of left-hand sides (also inside equivalence
paths), re-derivation of every rule from the pack's strategies, emptiness of lazily added empty rules by brute force,
and productivity through the reference least-fixed-point evaluator with shifts recomputed from brute-force minimum
sizes.
"""
from comb_spec_searcher.strategies.rule import EquivalencePathRule, EquivalenceRule, ReverseRule, Rule, VerificationRule
from comb_spec_searcher.strategies.strategy import (
    AbstractStrategy,
    CartesianProductStrategy,
    DisjointUnionStrategy,
    EmptyStrategy,
    StrategyFactory,
)

import harness.e2e as e2e
import universes.reg as R
from harness.e2e import Bad
from vlib import core
from vlib.oracles import lfp

LAST_FAILURE = None


def truly_empty(c):
    if hasattr(c, "brute"):  # TREE universe
        return not any(c.brute(n) for n in range(5))
    if c.atom:
        return False
    return not any(R.words(c.t, n, c.q, c.prefix) for n in range(len(c.prefix), len(c.prefix) + c.t.S + 1))


def true_min(c):
    if hasattr(c, "brute"):
        return min(n for n in range(6) if c.brute(n))
    if c.atom:
        return len(c.prefix)
    for n in range(len(c.prefix), len(c.prefix) + c.t.S + 2):
        if R.words(c.t, n, c.q, c.prefix):
            return n
    return None


def candidate_rules(pack, c, universe=()):
    """Every rule a strategy of the pack produces for the class c: strategies applied to c, factories applied to c, and
    rules for c that a factory yields when applied to another known class (rules whose parent differs from the expanded
    class)."""
    out = []
    for strat in pack:
        if isinstance(strat, StrategyFactory):
            items = list(strat(c))
            for other in universe:
                if other != c:
                    items += [x for x in strat(other) if not isinstance(x, AbstractStrategy) and x.comb_class == c]
        else:
            items = [strat]
        for x in items:
            if isinstance(x, AbstractStrategy):
                try:
                    r = x(c)
                    r.children
                except Exception:  # noqa: BLE001 - does not apply
                    continue
                out.append(r)
            elif x.comb_class == c:
                out.append(x)
    return out


def check_genuine(pack, rule, what, universe=()):
    """A plain Rule / VerificationRule is what some strategy of the pack really produces on its class."""
    if isinstance(rule.strategy, EmptyStrategy):
        if not truly_empty(rule.comb_class):
            raise Bad("%s: empty rule for %r which is not empty" % (what, rule.comb_class))
        return
    for cand in candidate_rules(pack, rule.comb_class, universe):
        if type(cand.strategy) is type(rule.strategy) and tuple(cand.children) == tuple(rule.children):
            return
    raise Bad("%s: rule %r -> %r by %r is not produced by any strategy of the pack on that class" % (
        what, rule.comb_class, rule.children, rule.strategy))


def first_principle_shifts(rule):
    """Shifts recomputed from brute-force minimum sizes (None for an empty child = never limiting)."""
    if isinstance(rule, VerificationRule):
        return ()
    if isinstance(rule, EquivalencePathRule):
        return (0,)
    if isinstance(rule, EquivalenceRule):
        return (0,)
    if isinstance(rule, ReverseRule):
        o = first_principle_shifts(rule.original_rule)
        p = -o[rule.idx]
        return (p,) + tuple(s + p for i, s in enumerate(o) if i != rule.idx)
    if type(rule.strategy).__name__ == "Drop":
        return (len(rule.comb_class.prefix),)
    if isinstance(rule.strategy, CartesianProductStrategy):
        mins = [true_min(ch) for ch in rule.children]
        assert all(m is not None for m in mins)
        return tuple(sum(mins) - m for m in mins)
    if isinstance(rule.strategy, DisjointUnionStrategy):
        return tuple(0 for _ in rule.children)
    raise Bad("unknown rule kind %r" % (rule,))


def unfold(rule):
    """(lhs class, rule) pairs hidden inside a rule (equivalence paths hold several)."""
    if isinstance(rule, EquivalencePathRule):
        return [(r.comb_class, r) for r in rule.rules]
    return [(rule.comb_class, rule)]


def assert_valid(ctx, spec=None):
    spec = spec if spec is not None else ctx.spec
    if spec is None:
        if "iterative" in ctx.pack_opts or "opaque" in ctx.pack_opts:
            return
        raise Bad("no specification found: %r" % (ctx.error,))
    pack = ctx.pack
    known = list(spec.comb_classes())
    rd = dict(spec.rules_dict)
    if spec.root not in rd:
        raise Bad("the start class has no rule")
    # 1. one rule per class, also counting the classes hidden inside equivalence paths
    lhs = []
    for cls, rule in rd.items():
        if rule.comb_class != cls:
            raise Bad("rules_dict[%r] is a rule for %r" % (cls, rule.comb_class))
        for c, r in unfold(rule):
            lhs.append(c)
    dup = [c for c in set(lhs) if lhs.count(c) > 1]
    if dup:
        raise Bad("classes with more than one rule: %r" % (dup,))
    # 2. closure: every non-empty class on a right-hand side has a rule
    for cls, rule in rd.items():
        for c, r in unfold(rule):
            for ch in r.children:
                if ch not in lhs and not truly_empty(ch):
                    raise Bad("class %r occurs on the right of %r but has no rule" % (ch, c))
    # 3. genuine
    for cls, rule in rd.items():
        if isinstance(rule, EquivalencePathRule):
            if rule.rules[0].comb_class != rule.comb_class or rule.rules[-1].children != rule.children:
                raise Bad("equivalence path end points do not match its steps")
            for a, b in zip(rule.rules, rule.rules[1:]):
                if a.children[0] != b.comb_class:
                    raise Bad("equivalence path is not a chain: %r then %r" % (a.children, b.comb_class))
        for c, r in unfold(rule):
            base = r
            if isinstance(base, EquivalenceRule):
                orig = base.original_rule
                if isinstance(orig, ReverseRule):
                    oo = orig.original_rule
                    check_genuine(pack, oo, "reverse of equivalence", known)
                    if oo.children[orig.idx] != base.comb_class or oo.comb_class != base.children[0]:
                        raise Bad("reverse equivalence rule does not match its original")
                    if any(not truly_empty(x) for i, x in enumerate(oo.children) if i != orig.idx):
                        raise Bad("equivalence form although a sibling is not empty: %r" % (oo.children,))
                else:
                    check_genuine(pack, orig, "equivalence", known)
                    ne = [x for x in orig.children if not truly_empty(x)]
                    if ne != [base.children[0]] or orig.comb_class != base.comb_class:
                        raise Bad("equivalence form of %r has non-empty children %r, rule says %r" % (orig.comb_class, ne, base.children))
            elif isinstance(base, ReverseRule):
                oo = base.original_rule
                check_genuine(pack, oo, "reverse", known)
                want = (oo.comb_class,) + tuple(x for i, x in enumerate(oo.children) if i != base.idx)
                if base.comb_class != oo.children[base.idx] or tuple(base.children) != want:
                    raise Bad("reverse rule does not match its original: %r -> %r" % (base.comb_class, base.children))
            else:
                check_genuine(pack, base, "rule", known)
    # 4. productive, judged from (parent, children, shifts) only, shifts from first principles
    label = {}

    def lab(c):
        return label.setdefault(c, len(label))

    keys = []
    for cls, rule in rd.items():
        fp = first_principle_shifts(rule)
        lib = tuple(rule.shifts())
        kids = [ch for ch in rule.children]
        live = [(ch, s, t) for ch, s, t in zip(kids, fp, lib) if not truly_empty(ch)]
        for ch, s, t in live:
            if s != t:
                raise Bad("rule for %r declares shift %r for child %r, first principles give %r" % (cls, t, ch, s))
        keys.append((lab(cls), tuple(lab(ch) for ch, _, _ in live), tuple(s for _, s, _ in live)))
    S = max([1] + [abs(s) for _, _, sh in keys for s in sh])
    f = lfp(keys, range(len(label)), S)
    for c, l in label.items():
        if not (l in f and f[l] is None):
            raise Bad("not productive: class %r yields only %r terms (rules %r)" % (c, f.get(l, 0), keys))


ASSERT = assert_valid
PREPARE = None

# >>> e2e wrappers
# ---- end-to-end wrappers (same text in every module that uses harness/e2e.py; ASSERT / PREPARE are module globals)
def check_opt(t: int) -> bool:
    """
    pre: e2e.tin(t)
    post: _
    """
    return core.final(e2e.body_opt(t, ASSERT, PREPARE))


def check_sched(t: int, j: int) -> bool:
    """
    pre: e2e.tin(t) and 0 <= j <= e2e.NJ
    post: _
    """
    return core.final(e2e.body_sched(t, j, ASSERT, PREPARE))


def check_sched2(t: int, j0: int, j1: int) -> bool:
    """
    pre: e2e.tin(t) and 0 <= j0 < j1 <= e2e.NJ
    post: _
    """
    return core.final(e2e.body_sched2(t, j0, j1, ASSERT, PREPARE))


def check_rng(t: int, d0: int, d1: int, d2: int) -> bool:
    """
    pre: e2e.tin(t) and 0 <= d0 <= 2 and 0 <= d1 <= 2 and 0 <= d2 <= 2
    post: _
    """
    return core.final(e2e.body_rng(t, (d0, d1, d2), ASSERT, PREPARE))
# <<< e2e wrappers


def on_shape(shape):
    e2e.on_shape(shape)


def groups(tier):
    return e2e.std_groups(tier)


def selftest(tier):
    return e2e.selftest_universe(tier)


def meta(tier):
    from comb_spec_searcher import CombinatorialSpecification as Spec
    from comb_spec_searcher.rule_db.base import RuleDBBase
    from comb_spec_searcher.rule_db.forest import ForestRuleExtractor, RuleDBForest
    from comb_spec_searcher.specification_extrator import SpecificationRuleExtractor
    m = dict(e2e.COMMON_META)
    m.update({
        "functions": [SpecificationRuleExtractor.__init__, SpecificationRuleExtractor._populate_decompositions,
                      SpecificationRuleExtractor._populate_equivalences, SpecificationRuleExtractor._find_rule, Spec._group_equiv_in_path,
                      Spec.get_rule, ForestRuleExtractor.rules, ForestRuleExtractor._find_rule, RuleDBBase.get_specification_rules,
                      RuleDBForest.get_specification_rules],
        "bounds": "exploration as C01 (tables x databases x option sets, late clock readings, draw tapes); every rule of every returned "
                  "specification is checked",
    })
    m["assumptions"] = m["assumptions"] + ["reference least fixed point (vlib/oracles.lfp)"]
    m["bounds"] = str(m.get("bounds", "")) + " || end-to-end groups of this run: " + e2e.describe_groups(groups(tier))
    return m
