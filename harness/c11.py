"""C11 - forest extraction returns a minimal, closed, productive rule set.

(a) pattern D on integer universes, real ForestRuleExtractor (+ the real TableMethod it re-runs) behind a stub rule
    database: the shape is an ordered rule list (all insertion orders are different shapes), the solver variables are the
    shift of every child and the bucket of every rule (forked; the extractor sees shifts only through TableMethod
    verdicts, which are C03's subject).  Whenever the root pumps the extracted rule set is compared with the reference
    least fixed point: subset of the inserted keys, productive, one rule per class, closed, 1-minimal, reverse rules only
    if unavoidable.
(b) extraction on universes recorded by real searches (every extracted key is turned back into a rule with the same
    key): part of the end-to-end group (harness/e2e, forest flavour).
"""
import itertools

from comb_spec_searcher.rule_db.forest import ForestRuleExtractor, TableMethod
from comb_spec_searcher.typing import ForestRuleKey, RuleBucket

from harness.c03 import shapes
from vlib import core
from vlib.core import NoTracing, pick
from vlib.oracles import lfp

LAST_FAILURE = None
SHIFTS = (-1, 0, 1, 2)
BUCKETS = {0: (RuleBucket.VERIFICATION, RuleBucket.NORMAL), 1: (RuleBucket.EQUIV, RuleBucket.NORMAL, RuleBucket.REVERSE),
           2: (RuleBucket.NORMAL, RuleBucket.REVERSE)}


def _fail(msg):
    global LAST_FAILURE
    LAST_FAILURE = msg
    return False


class _StubDB:
    pass


def pump(rules, root):
    S = max([1] + [abs(s) for r in rules for s in r.shifts])
    return lfp([(r.parent, tuple(r.children), tuple(r.shifts)) for r in rules], [root], S).get(root, 0) is None


def run_extract(rule_keys, root=0):
    tm = TableMethod()
    for rk in rule_keys:
        tm.add_rule_key(rk)
    want = pump(rule_keys, root)
    if tm.is_pumping(root) != want:
        return _fail("is_pumping(root)=%r but reference says %r for %r" % (tm.is_pumping(root), want, rule_keys))
    if not want:
        return True
    db = _StubDB()
    db.table_method = tm
    ex = ForestRuleExtractor(root, db, None, None)
    ex.check()
    need = list(ex.needed_rules)
    for r in need:
        if r not in rule_keys:
            return _fail("extracted key %r was never inserted" % (r,))
    if not pump(need, root):
        return _fail("extracted rules %r are not productive for the root (inserted %r)" % (need, rule_keys))
    lhs = [r.parent for r in need]
    if len(set(lhs)) != len(lhs):
        return _fail("two rules for one class in %r" % (need,))
    for r in need:
        for c in r.children:
            if c not in lhs:
                return _fail("class %d is mentioned by %r but has no rule in %r" % (c, r, need))
    if root not in lhs:
        return _fail("no rule for the root in %r" % (need,))
    for i in range(len(need)):
        if pump(need[:i] + need[i + 1:], root):
            return _fail("not minimal: %r can be removed from %r" % (need[i], need))
    if any(r.bucket == RuleBucket.REVERSE for r in need):
        if pump([r for r in rule_keys if r.bucket != RuleBucket.REVERSE], root):
            return _fail("reverse rule used in %r although the universe without reverse rules is productive: %r" % (need, rule_keys))
    return True


# ------------------------------------------------------------------ (b) universes recorded by real searches
import harness.c01 as c01  # noqa: E402
import harness.c02 as c02  # noqa: E402
import harness.e2e as e2e  # noqa: E402
from harness.e2e import Bad  # noqa: E402


def assert_extraction(ctx):
    if ctx.spec is None:
        # C11 speaks about what is extracted *when* a specification is reported; without reverse rules the universe may
        # contain none (e.g. a class only reachable through the reverse of a symmetry rule)
        core.observe("runs in which the forest database reports no specification")
        return
    s = ctx.searcher
    db = s.ruledb
    keys = list(db.table_method._rules)
    ex = ForestRuleExtractor(s.start_label, db, s.classdb, s.strategy_pack)
    ex.check()
    need = list(ex.needed_rules)
    root = s.start_label
    for r in need:
        if r not in keys:
            raise Bad("extracted key %r was never inserted" % (r,))
    if not pump(need, root):
        raise Bad("extracted rules are not productive for the start class")
    lhs = [r.parent for r in need]
    if len(set(lhs)) != len(lhs):
        raise Bad("two rules for one class in the extracted set")
    for i in range(len(need)):
        if pump(need[:i] + need[i + 1:], root):
            raise Bad("extracted set is not minimal: %r can be removed" % (need[i],))
    if any(r.bucket == RuleBucket.REVERSE for r in need):
        core.observe("extractions using a reverse rule")
        if pump([r for r in keys if r.bucket != RuleBucket.REVERSE], root):
            raise Bad("a reverse rule is used although the universe without reverse rules is productive")
    for rk in need:
        try:
            rule = ex._find_rule(rk)
        except RuntimeError as e:
            raise Bad("extracted key %r cannot be turned back into a rule of the pack: %s" % (rk, str(e)[:80]))
        back = rule.forest_key(s.classdb.get_label, s.classdb.is_empty)
        if back != rk:
            raise Bad("key %r was turned into a rule whose key is %r" % (rk, back))
    c01.assert_counts(ctx, ctx.spec, n_max=5)
    c02.assert_valid(ctx, ctx.spec)
    core.observe("extractions checked")


ASSERT = assert_extraction
PREPARE = None

# >>> e2e wrappers
# ---- end-to-end wrappers (same text in every module that uses harness/e2e.py; ASSERT / PREPARE are module globals)
def check_opt(t: int) -> bool:
    """
    pre: e2e.tin(t)
    post: _
    """
    return core.final(e2e.body_opt(t, ASSERT, PREPARE))


def check_sched(t: int, j: int) -> bool:
    """
    pre: e2e.tin(t) and 0 <= j <= e2e.NJ
    post: _
    """
    return core.final(e2e.body_sched(t, j, ASSERT, PREPARE))


def check_sched2(t: int, j0: int, j1: int) -> bool:
    """
    pre: e2e.tin(t) and 0 <= j0 < j1 <= e2e.NJ
    post: _
    """
    return core.final(e2e.body_sched2(t, j0, j1, ASSERT, PREPARE))


def check_rng(t: int, d0: int, d1: int, d2: int) -> bool:
    """
    pre: e2e.tin(t) and 0 <= d0 <= 2 and 0 <= d1 <= 2 and 0 <= d2 <= 2
    post: _
    """
    return core.final(e2e.body_rng(t, (d0, d1, d2), ASSERT, PREPARE))
# <<< e2e wrappers


def decode(shape, vals):
    """vals: shifts (one per child, index into SHIFTS) then buckets (one per rule, index into BUCKETS[arity])"""
    rules = shape["rules"]
    fixed_sh = shape.get("shifts")
    k = 0
    out = []
    nsh = 0 if fixed_sh is not None else sum(len(ch) for _, ch in rules)
    bpos = nsh
    flat = 0
    for p, ch in rules:
        if fixed_sh is not None:
            sh = tuple(fixed_sh[flat:flat + len(ch)])
            flat += len(ch)
        else:
            sh = tuple(shape["sdom"][vals[k + j]] for j in range(len(ch)))
            k += len(ch)
        bset = BUCKETS[min(len(ch), 2)]
        out.append(ForestRuleKey(p, tuple(ch), sh, bset[vals[bpos]]))
        bpos += 1
    return out


def domains(shape):
    rules = shape["rules"]
    doms = []
    if shape.get("shifts") is None:
        for _, ch in rules:
            doms += [len(shape["sdom"])] * len(ch)
    for _, ch in rules:
        doms.append(len(BUCKETS[min(len(ch), 2)]))
    return doms


DOMS = []


def on_shape(shape):
    global DOMS
    if "db" in shape:
        e2e.on_shape(shape)
        return
    DOMS = domains(shape)


def _body(vs):
    shape = core.SHAPE
    fixed = tuple(shape.get("fixed", []))
    doms = DOMS
    vals = fixed + tuple(pick(v, 0, doms[len(fixed) + i] - 1) for i, v in enumerate(vs))
    with NoTracing():
        core.tally(vals)
        return run_extract(decode(shape, vals))


def _inb(*vs):
    off = len(core.SHAPE.get("fixed", []))
    for i, v in enumerate(vs):
        if not (0 <= v < DOMS[off + i]):
            return False
    return True


def check_e1(a: int) -> bool:
    """
    pre: _inb(a)
    post: _
    """
    return core.final(_body((a,)))


def check_e2(a: int, b: int) -> bool:
    """
    pre: _inb(a, b)
    post: _
    """
    return core.final(_body((a, b)))


def check_e3(a: int, b: int, c: int) -> bool:
    """
    pre: _inb(a, b, c)
    post: _
    """
    return core.final(_body((a, b, c)))


def check_e4(a: int, b: int, c: int, d: int) -> bool:
    """
    pre: _inb(a, b, c, d)
    post: _
    """
    return core.final(_body((a, b, c, d)))


def check_e5(a: int, b: int, c: int, d: int, e: int) -> bool:
    """
    pre: _inb(a, b, c, d, e)
    post: _
    """
    return core.final(_body((a, b, c, d, e)))


def check_e6(a: int, b: int, c: int, d: int, e: int, f: int) -> bool:
    """
    pre: _inb(a, b, c, d, e, f)
    post: _
    """
    return core.final(_body((a, b, c, d, e, f)))


def check_e7(a: int, b: int, c: int, d: int, e: int, f: int, g: int) -> bool:
    """
    pre: _inb(a, b, c, d, e, f, g)
    post: _
    """
    return core.final(_body((a, b, c, d, e, f, g)))


def check_e8(a: int, b: int, c: int, d: int, e: int, f: int, g: int, h: int) -> bool:
    """
    pre: _inb(a, b, c, d, e, f, g, h)
    post: _
    """
    return core.final(_body((a, b, c, d, e, f, g, h)))


# ------------------------------------------------------------------ catalogue
def can_pump(sh, sdom):
    n = sum(len(ch) for _, ch in sh)
    for vec in itertools.product(sdom, repeat=n):
        k = 0
        rules = []
        for p, ch in sh:
            rules.append((p, tuple(ch), tuple(vec[k:k + len(ch)])))
            k += len(ch)
        if lfp(rules, [0], 2).get(0, 0) is None:
            return True
    return False


# Larger universes with typed-in shifts (only the buckets are solver variables); every insertion order is a shape.
# "alt": the root has two alternative derivations sharing leaves, so every bucket holds both needed and unneeded rules.
SKELETONS = {
    "alt5": [(0, (1,), (1,)), (0, (2,), (1,)), (1, (0, 3), (0, 0)), (2, (0, 3), (0, 0)), (3, (), ())],
    "rev5": [(0, (1, 2), (0, 1)), (1, (), ()), (2, (0,), (0,)), (2, (1,), (1,)), (0, (2,), (0,))],
}


def groups(tier):
    gs = []

    def add(name, shape, maxfree=4):
        doms = domains(shape)
        n = len(doms)
        if n == 0:
            return
        nfix = 0
        space = 1
        for d in doms:
            space *= d
        # split big spaces over cores by fixing leading variables
        while n - nfix > 8 or (space > 1500 and n - nfix > 1):
            space //= doms[nfix]
            nfix += 1
        for fixed in itertools.product(*[range(d) for d in doms[:nfix]]):
            sh = dict(shape)
            sh["fixed"] = list(fixed)
            gs.append({"name": name + ("-" + "".join(map(str, fixed)) if fixed else ""), "fn": "check_e%d" % (n - nfix),
                       "shape": sh, "cond_timeout": 1200.0, "path_timeout": 60.0, "expect_space": space, "weight": space})

    sdom_q = [-1, 0, 1, 2]
    cat = [sh for sh in shapes(2, 2, 2) if sum(len(ch) for _, ch in sh) <= 4 and can_pump(sh, sdom_q)]
    for i, sh in enumerate(cat):
        add("L2R2-%03d" % i, {"rules": [[p, list(ch)] for p, ch in sh], "sdom": sdom_q})
    if tier == "thorough":
        cat3 = [sh for sh in shapes(2, 3, 2) if len(sh) == 3 and sum(len(ch) for _, ch in sh) <= 3 and can_pump(sh, sdom_q)]
        for i, sh in enumerate(cat3):
            add("L2R3-%03d" % i, {"rules": [[p, list(ch)] for p, ch in sh], "sdom": sdom_q})
        sdom3 = [-1, 0, 1]
        cat33 = [sh for sh in shapes(3, 3, 2) if len(sh) == 3 and sum(len(ch) for _, ch in sh) <= 3
                 and len({p for p, _ in sh} | {c for _, ch in sh for c in ch}) == 3 and can_pump(sh, sdom3)]
        for i, sh in enumerate(cat33):
            add("L3R3-%03d" % i, {"rules": [[p, list(ch)] for p, ch in sh], "sdom": sdom3})
    for name, sk in SKELETONS.items():
        orders = list(itertools.permutations(range(len(sk))))
        if tier == "quick":
            orders = orders[::6]  # every 6th insertion order (20 of 120); thorough runs all
        for oi, order in enumerate(orders):
            rules = [sk[j] for j in order]
            add("%s-o%s" % (name, "".join(map(str, order))),
                {"rules": [[p, list(ch)] for p, ch, _ in rules], "shifts": [s for _, _, sh in rules for s in sh], "sdom": []})
    # (b) universes recorded by real searches, with and without reverse rules
    opts = ["plain", "inferral", "symmetry", "factory", "factory2", "finite", "finite-ev", "k", "ku", "two", "oneway"]
    if tier == "thorough":
        opts += ["inferral-factory-finite", "two-k", "kk", "ku-factory", "oneway-k"]
    gs += e2e.std_groups(tier, dbs=("forest", "forest-noreverse"), opts=opts, sched=(tier == "thorough"), rng=False, S3=(tier == "thorough"))
    if tier == "quick":
        # three-state tables in which the start class is specified backwards through rules that can only be rebuilt from a
        # child class of the key (the thorough tier runs all three-state tables)
        for lo in (100, 400):
            gs.append({"name": "opt-forest-opaque-merge-S3-t%d" % lo, "fn": "check_opt",
                       "shape": {"db": "forest", "opt": "opaque-merge", "S": 3, "trange": [lo, lo + 300]},
                       "cond_timeout": 1500.0, "path_timeout": 120.0, "expect_space": 300, "weight": 300})
    return gs


def selftest(tier):
    e2e.selftest_universe(tier)
    # the skeletons pump with their typed-in shifts
    for name, sk in SKELETONS.items():
        assert lfp(sk, [0], 2).get(0, 0) is None, name
    # the reference accepts the extractor on the universe of tests/test_forest.py::test_132_universe_pumping
    u = [ForestRuleKey(0, (1, 2), (0, 0), RuleBucket.NORMAL), ForestRuleKey(1, (), (), RuleBucket.VERIFICATION),
         ForestRuleKey(2, (3,), (0,), RuleBucket.NORMAL), ForestRuleKey(3, (4,), (0,), RuleBucket.NORMAL),
         ForestRuleKey(4, (5, 0, 0), (0, 1, 1), RuleBucket.NORMAL), ForestRuleKey(5, (), (), RuleBucket.VERIFICATION)]
    assert run_extract(u), LAST_FAILURE
    return {}


def meta(tier):
    m = {
        "functions": [ForestRuleExtractor.__init__, ForestRuleExtractor._minimize, ForestRuleExtractor._minimize_key,
                      ForestRuleExtractor._is_productive, ForestRuleExtractor._sorted_stable_rules, ForestRuleExtractor.check,
                      TableMethod.pumping_subuniverse, TableMethod.add_rule_key],
        "bounds": {"quick": "all ordered rule lists (mod renaming) over <=2 labels with <=2 rules, arity<=2, that can pump: every shift in "
                            "{-1,0,1,2} and every bucket (by arity: 0 -> verification/normal, 1 -> equiv/normal/reverse, 2 -> normal/reverse); "
                            "two 5-rule universes with typed-in shifts, all bucket assignments, every 6th insertion order",
                   "thorough": "plus 3-rule lists over 2 labels (<=3 shifts), 3-rule lists over exactly 3 labels with shifts in {-1,0,1}, "
                               "and all 120 insertion orders of the 5-rule universes"}[tier],
        "outside": ["PyPy gc branches", "the UNDEFINED bucket (the extractor raises by design)", "larger universes",
                    "turning keys back into rules (end-to-end group, forest flavour)"],
        "stubs": ["stub rule database carrying a real TableMethod"],
        "assumptions": ["reference least fixed point (vlib/oracles.lfp, validated in C03's selftest)"],
    }
    m["bounds"] = str(m.get("bounds", "")) + " || end-to-end groups of this run: " + e2e.describe_groups(groups(tier))
    return m
