"""End-to-end exploration shared by C01, C02, C04, C07(c), C08(d), C11(b), C14, C17, C18, C19, C20(b).

Pattern D on the REG universe.  One CrossHair path = one whole run of the real searcher on a concrete universe.
The solver variables are exactly what the properties quantify over and the test-suite never varies:
the DFA table (index into the catalogue of canonical tables), the position of a late clock reading
(time-slicing of the expand/search loop), and the draw tape (random choice of proof tree).  The rule-database
flavour and the option set form the query group.  Everything runs inside NoTracing; the shims resume tracing only
to compare a solver variable.
"""
import itertools
from collections import Counter

from comb_spec_searcher import CombinatorialSpecificationSearcher
from comb_spec_searcher.class_db import ClassDB
from comb_spec_searcher.exception import SpecificationNotFound
from comb_spec_searcher.rule_db import RuleDBForest, RuleDBForgetStrategy
from comb_spec_searcher.rule_db.base import RuleDB

import universes.reg as R
from vlib import core
from vlib.core import NoTracing, pick
from vlib.shims import Clock, Tape, patched_env

# formatting / memory-introspection only: empty bodies (pympler's asizeof walks the whole heap)
CombinatorialSpecificationSearcher._log_spec_found = lambda self, *a, **k: None
CombinatorialSpecificationSearcher.status = lambda self, elaborate=False: ""

DBS = {"base": RuleDB, "forget": RuleDBForgetStrategy, "forest": RuleDBForest, "forest-noreverse": lambda: RuleDBForest(reverse=False)}

# option set -> (pack options, stats mode, expand_verified, smallest)
OPTSETS = {
    "plain": ((), "", False, False),
    "iterative": (("iterative",), "", False, False),
    "inferral": (("inferral",), "", False, False),
    "symmetry": (("symmetry",), "", False, False),
    "factory": (("factory",), "", False, False),
    "factory2": (("factory2",), "", False, False),
    "factory2-symmetry": (("factory2", "symmetry"), "", False, False),
    "finite": (("finite",), "", False, False),
    "finite-ev": (("finite",), "", True, False),
    "two-finite": (("two", "finite"), "", False, False),
    "finite-mixed": (("finite-mixed",), "", False, False),
    "symmetry-finite": (("symmetry", "finite"), "", False, False),
    "k-finite": (("finite",), "k", False, False),
    "inferral-finite": (("inferral", "finite"), "", False, False),
    "inferral-two-finite": (("inferral", "two", "finite"), "", False, False),
    "smallest": ((), "", False, True),
    "opaque": (("opaque",), "", False, False),
    "opaque-k": (("opaque",), "k", False, False),
    "opaque-merge": (("opaque", "inferral"), "", True, False),
    "opaque-ku": (("opaque",), "ku", False, False),
    "drop": (("drop",), "", False, False),
    "drop-two": (("drop", "two"), "", False, False),
    "oneway": (("oneway",), "", False, False),
    "oneway-k": (("oneway",), "k", False, False),
    "two": (("two",), "", False, False),
    "two-smallest": (("two",), "", False, True),
    "two-inferral": (("two", "inferral"), "", False, False),
    "two-k": (("two",), "k", False, False),
    "inferral-symmetry": (("inferral", "symmetry"), "", False, False),
    "inferral-factory-finite": (("inferral", "factory", "finite"), "", False, False),
    "k": ((), "k", False, False),
    "kk": ((), "kk", False, False),
    "ku": ((), "ku", False, False),
    "k-inferral": (("inferral",), "k", False, False),
    "ku-factory": (("factory",), "ku", False, False),
}

_TABLES = {}


def tables(S):
    """S = 2, 3: canonical tables with S states; S = "2d": the two-state tables on doubled (redundant) automata;
    S = "F4": 512 four-state tables whose states 1, 2 accept finite languages (for pack-offering verification)."""
    if S not in _TABLES:
        if S == "tree":
            import universes.tree as T
            _TABLES[S] = list(T.UNIVERSES)
        elif S == "F4":
            # four states: 0 (any transitions), 1 -> {2,3}, 2 -> {3}, 3 dead: states 1 and 2 accept finite languages
            out = []
            for d0 in itertools.product(range(4), repeat=2):
                for d1 in itertools.product((2, 3), repeat=2):
                    for acc in itertools.product((0, 1), repeat=3):
                        out.append(R.Table((d0, d1, (3, 3), (3, 3)), acc + (0,)))
            _TABLES[S] = out
        elif S == "F5":
            # five states: 0 -> {0,1}, 1 -> {2,3,4}, 2 -> {3,4}, 3 -> {4} accepting, 4 dead: nested finite languages
            out = []
            for d0 in itertools.product((0, 1), repeat=2):
                for d1 in itertools.product((2, 3, 4), repeat=2):
                    for d2 in itertools.product((3, 4), repeat=2):
                        for acc in itertools.product((0, 1), repeat=3):
                            out.append(R.Table((d0, d1, d2, (4, 4), (4, 4)), acc + (1, 0)))
            _TABLES[S] = out
        elif S == "F5e":
            # five states: 0 -> {4, finite state} (either letter order), 1 -> {2,3}, 2 -> {3}, 3 dead, 4 = a copy of state 0 (same row):
            # with the inferral strategy the class of state 4 is equivalent to the start class, so the specification contains an
            # equivalence path next to the finite (pack-offering) verified classes of states 1 and 2
            out = []
            for d0 in ((4, 1), (1, 4), (4, 2), (2, 4)):
                for d1 in itertools.product((2, 3), repeat=2):
                    for acc in itertools.product((0, 1), repeat=3):
                        out.append(R.Table((d0, d1, (3, 3), (3, 3), d0), acc + (0, acc[0])))
            _TABLES[S] = out
        elif S == "2d":
            _TABLES[S] = [R.doubled(t) for t in R.canonical_tables(2)]
        else:
            _TABLES[S] = R.canonical_tables(S)
    return _TABLES[S]


NT = 64
NJ = 200
LAST_FAILURE = None


class Bad(Exception):
    pass


class Ctx:
    pass


def truth_terms(table, stats, n, q=0, prefix=""):
    if hasattr(table, "truth"):  # a non-REG universe (TREE)
        return Counter(() for _ in table.truth(n))
    return Counter(tuple(w.count("a") for _ in R.PARAMS[stats]) for w in R.words(table, n, q, prefix))


def truth_objects(ctx, n, key=()):
    """Brute-force objects (as strings) of the start class of size n whose statistics all equal the values in key."""
    if hasattr(ctx.table, "truth"):
        return list(ctx.table.truth(n))
    return [w for w in R.words(ctx.table, n) if all(w.count("a") == v for v in key)]


def run_search(shape, table, jumps=(), draws=(), prepare=None, mode="auto"):
    """One run of the real searcher.  -> Ctx"""
    popts, stats, ev, smallest = OPTSETS[shape["opt"]]
    ctx = Ctx()
    ctx.table = table
    ctx.stats = stats
    ctx.shape = shape
    ctx.pack_opts = popts + (("stats:" + stats,) if stats else ())
    if hasattr(table, "truth"):
        ctx.pack = table.pack(ctx.pack_opts)
        ctx.start = table.start(stats)
    else:
        ctx.pack = R.mkpack(ctx.pack_opts)
        ctx.start = R.start_class(table, stats)
    ctx.clock = Clock(jumps)
    ctx.tape = Tape(draws)
    ctx.smallest = smallest
    ctx.spec = None
    ctx.error = None
    with patched_env(ctx.clock, ctx.tape):
        ctx.db = DBS[shape["db"]]()
        ctx.classdb = ClassDB(type(ctx.start))
        if prepare is not None:
            prepare(ctx)  # may wrap methods of ctx.db / ctx.classdb before the searcher's constructor uses them
        ctx.searcher = CombinatorialSpecificationSearcher(ctx.start, ctx.pack, ruledb=ctx.db, classdb=ctx.classdb, expand_verified=ev)
        try:
            if mode == "auto":
                kw = {"smallest": True} if smallest else {}
                ctx.spec = ctx.searcher.auto_search(**kw)
            else:
                for _ in range(shape.get("levels", 3)):
                    try:
                        ctx.searcher.do_level()
                    except Exception as e:  # noqa: BLE001
                        if type(e).__name__ != "NoMoreClassesToExpandError":
                            raise
                        break
                ctx.spec = ctx.searcher.get_specification(minimization_time_limit=1.5, smallest=smallest)
        except SpecificationNotFound as e:
            ctx.error = e
    return ctx


def _explore(shape, t_idx, jumps, draws, assert_fn, prepare=None):
    global LAST_FAILURE
    table = tables(shape["S"])[t_idx]
    try:
        ctx = run_search(shape, table, jumps, draws, prepare, shape.get("mode", "auto"))
        observe_spec(ctx)
        with patched_env(ctx.clock, ctx.tape):
            assert_fn(ctx)
        return True
    except Bad as e:
        LAST_FAILURE = "%s | table %r db=%s opt=%s late readings %r draws %r" % (
            e, table, shape["db"], shape["opt"], getattr(ctx, "clock", None) and ctx.clock.late_at, getattr(ctx, "tape", None) and ctx.tape.used)
        return False


def observe_spec(ctx):
    """Tally what kind of run this was (evidence only)."""
    core.observe("runs")
    if ctx.spec is None:
        core.observe("runs without specification")
        return
    core.observe("specifications")
    kinds = set()
    for rule in ctx.spec.rules_dict.values():
        for r in (rule.rules if hasattr(rule, "rules") else [rule]):
            kinds.add(type(r).__name__)
            if type(r).__name__ == "EquivalenceRule" and type(r.original_rule).__name__ == "ReverseRule":
                kinds.add("EquivalenceRule(ReverseRule)")
        kinds.add(type(rule).__name__)
    for k in kinds:
        core.observe("specifications containing a " + k)
    if ctx.clock.late_at:
        core.observe("runs with a late clock reading")
    if len(ctx.spec.rules_dict) > 3:
        core.observe("specifications with more than 3 rules")


def body_opt(t, assert_fn, prepare=None):
    shape = core.SHAPE
    lo, hi = shape.get("trange", [0, len(tables(shape["S"]))])
    ti = pick(t, lo, hi - 1)
    with NoTracing():
        core.tally((ti,))
        return _explore(shape, ti, (), (), assert_fn, prepare)


def body_sched(t, j, assert_fn, prepare=None):
    shape = core.SHAPE
    lo, hi = shape.get("trange", [0, len(tables(shape["S"]))])
    ti = pick(t, lo, hi - 1)
    with NoTracing():
        # j stays symbolic: the clock compares it with its reading counter (resumed tracing inside the shim)
        return _explore(shape, ti, (j,), (), assert_fn, prepare)


def body_sched2(t, j0, j1, assert_fn, prepare=None):
    shape = core.SHAPE
    lo, hi = shape.get("trange", [0, len(tables(shape["S"]))])
    ti = pick(t, lo, hi - 1)
    with NoTracing():
        return _explore(shape, ti, (j0, j1), (), assert_fn, prepare)


def body_rng(t, draws, assert_fn, prepare=None):
    shape = core.SHAPE
    lo, hi = shape.get("trange", [0, len(tables(shape["S"]))])
    ti = pick(t, lo, hi - 1)
    with NoTracing():
        return _explore(shape, ti, (), tuple(draws), assert_fn, prepare)


def on_shape(shape):
    global NT
    lo, hi = shape.get("trange", [0, len(tables(shape["S"]))])
    NT = hi


def tin(t):
    lo, hi = core.SHAPE.get("trange", [0, NT])
    return lo <= t < hi


# ------------------------------------------------------------------ standard group layout
def std_groups(tier, dbs=("base", "forget", "forest"), opts=None, sched=True, rng=True, S3=True, extra=None):
    gs = []
    if opts is None:
        opts = ["plain", "iterative", "inferral", "symmetry", "factory", "factory2", "finite", "finite-ev", "smallest", "k", "kk", "ku", "two",
                "two-smallest", "oneway", "drop"]
        if tier == "thorough":
            opts += ["inferral-symmetry", "inferral-factory-finite", "k-inferral", "ku-factory", "two-inferral", "two-k", "oneway-k", "drop-two"]

    def add(name, fn, shape, expect=None, weight=10, timeout=1500.0):
        g = {"name": name, "fn": fn, "shape": shape, "cond_timeout": timeout, "path_timeout": 120.0, "weight": weight}
        if expect is not None:
            g["expect_space"] = expect
        gs.append(g)

    n2 = len(tables(2))
    if "forest" in dbs and not any(o.startswith("opaque") for o in opts):
        # the start class can only be specified backwards (complement + quotient rules, also with statistics)
        for opt in ("opaque", "opaque-k", "opaque-ku", "opaque-merge"):
            add("opt-forest-%s-S2" % opt, "check_opt", {"db": "forest", "opt": opt, "S": 2}, expect=n2, weight=n2)
        if tier == "thorough":
            n3 = len(tables(3))
            for opt in ("opaque", "opaque-k", "opaque-merge"):
                for lo in range(0, n3, 300):
                    hi = min(n3, lo + 300)
                    add("opt-forest-%s-S3-t%d" % (opt, lo), "check_opt", {"db": "forest", "opt": opt, "S": 3, "trange": [lo, hi]}, expect=hi - lo, weight=hi - lo)
    for db in dbs:
        for opt in opts:
            if opt in ("iterative",) and db.startswith("forest"):
                continue
            if opt in ("smallest", "two-smallest") and db != "base":
                continue
            add("opt-%s-%s-S2" % (db, opt), "check_opt", {"db": db, "opt": opt, "S": 2}, expect=n2, weight=n2)
    if sched:
        for db in dbs:
            # the late reading position j is compared with the reading counter: one path per reading of the run
            for lo in range(0, n2, 16):
                add("sched-%s-plain-S2-t%d" % (db, lo), "check_sched", {"db": db, "opt": "plain", "S": 2, "trange": [lo, min(n2, lo + 16)]}, weight=16 * 60)
        if tier == "thorough":
            for db in dbs:
                for opt in ("inferral", "finite", "k"):
                    for lo in range(0, n2, 16):
                        add("sched-%s-%s-S2-t%d" % (db, opt, lo), "check_sched", {"db": db, "opt": opt, "S": 2, "trange": [lo, min(n2, lo + 16)]}, weight=16 * 60)
    if rng:
        for lo in range(0, n2, 16):
            # with two expansion strategies several proof trees exist, so the draw tape really chooses
            add("rng-base-two-S2-t%d" % lo, "check_rng", {"db": "base", "opt": "two", "S": 2, "trange": [lo, min(n2, lo + 16)]}, weight=16 * 30)
        add("levels-base-plain-S2", "check_opt", {"db": "base", "opt": "plain", "S": 2, "mode": "levels", "levels": 3}, expect=n2, weight=n2)
        add("levels-forest-plain-S2", "check_opt", {"db": "forest", "opt": "plain", "S": 2, "mode": "levels", "levels": 3}, expect=n2, weight=n2)
    # TREE universe: product rules with repeated children
    for db in dbs:
        add("tree-%s" % db, "check_opt", {"db": db, "opt": "plain", "S": "tree"}, expect=4, weight=40)
    if S3 and tier == "thorough":
        n3 = len(tables(3))
        for db in dbs:
            for opt in ("plain", "inferral", "finite", "k"):
                for lo in range(0, n3, 200):
                    hi = min(n3, lo + 200)
                    add("opt-%s-%s-S3-t%d" % (db, opt, lo), "check_opt", {"db": db, "opt": opt, "S": 3, "trange": [lo, hi]}, expect=hi - lo, weight=hi - lo)
    if extra:
        gs += extra
    return gs


def describe_groups(gs):
    """Exact, generated description of the end-to-end query groups of a run (for the evidence's bounds text)."""
    fam = {}
    for g in gs:
        sh = g.get("shape") or {}
        if "db" not in sh:
            continue
        key = (g["fn"], str(sh.get("S")), sh.get("mode", "auto"))
        d = fam.setdefault(key, {"dbs": set(), "opts": set(), "idx": set()})
        d["dbs"].add(sh["db"])
        d["opts"].add(sh["opt"])
        lo, hi = sh.get("trange", [0, len(tables(sh["S"]))])
        d["idx"].update(range(lo, hi))
    names = {"2": "64 two-state tables", "3": "2934 three-state tables", "2d": "64 doubled two-state tables", "F4": "512 four-state tables",
             "F5": "1152 five-state tables", "F5e": "128 five-state tables with a copy of the start state", "tree": "4 tree universes"}
    kinds = {"check_opt": "no late reading", "check_sched": "one late clock reading at every position", "check_sched2": "two late readings",
             "check_rng": "draw tapes of 3 draws"}
    parts = []
    for (fn, S, mode), d in sorted(fam.items()):
        full = len(tables(int(S) if S.isdigit() else S))
        cover = "" if len(d["idx"]) == full else " (%d of them, indices %d..%d)" % (len(d["idx"]), min(d["idx"]), max(d["idx"]))
        parts.append("%s%s on %s%s: databases {%s} x packs {%s}" % (kinds.get(fn, fn), " (level-wise)" if mode != "auto" else "", names.get(S, S), cover,
                                                                    ", ".join(sorted(d["dbs"])), ", ".join(sorted(d["opts"]))))
    return "; ".join(parts)


COMMON_META = {
    "stubs": ["time in comb_spec_searcher.comb_spec_searcher / class_db / rule_db.forest / tree_searcher / utils replaced by ONE shared "
              "clock (advances 1.0 per reading, +5000 at the late readings; assumed contract: non-decreasing)",
              "tree_searcher.choice/shuffle, constructors' randint/random read a draw tape",
              "CombinatorialSpecificationSearcher.status and _log_spec_found have empty bodies (formatting / pympler asizeof)"],
    "outside": ["universes other than REG (regular languages over {a,b}, DFA with <=2 states in quick, <=3 in thorough)",
                "sizes above the stated N", "PyPy branches", "combinations of options across groups"],
    "assumptions": ["REG strategies honour the documented strategy contracts (universe self-test against brute force at every run)",
                    "brute-force enumeration of DFA languages is the ground truth"],
}


def selftest_universe(tier):
    n = 0
    for t in tables(2):
        R.selftest_table(t)
        n += 1
    for t in tables("F5e")[::16]:
        R.selftest_table(t, N=3)
        n += 1
    if tier == "thorough":
        for t in tables(3)[::40]:
            R.selftest_table(t, N=3)
            n += 1
    return {"tables_self_tested": n}
