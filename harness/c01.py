"""C01 - a specification returned by the searcher enumerates the root class correctly.

End-to-end, pattern D on REG (see harness/e2e.py): solver variables = DFA table, late clock reading, draw tape;
query group = rule-database flavour x option set.  On every path the real searcher runs and every size n <= N and every
statistic value is compared with brute force through the DFA.
"""
from collections import Counter

from comb_spec_searcher.exception import SpecificationNotFound

import harness.e2e as e2e
import universes.reg as R
from harness.e2e import Bad
from vlib import core

N = 6
LAST_FAILURE = None


def assert_counts(ctx, spec=None, n_max=None):
    spec = spec if spec is not None else ctx.spec
    if spec is None and ("iterative" in ctx.pack_opts or "opaque" in ctx.pack_opts):
        return  # an iterative / backwards-only specification need not exist; detection exactness is C05's / C03's subject
    if spec is None:
        raise Bad("no specification was found although the (finite) universe contains one: %r" % (ctx.error,))
    if spec.root != ctx.start:
        raise Bad("the specification is for %r, not for the start class %r" % (spec.root, ctx.start))
    for n in range((n_max or N) + 1):
        truth = e2e.truth_terms(ctx.table, ctx.stats, n)
        got = spec.get_terms(n)
        for p in set(got) | set(truth):
            if got.get(p, 0) != truth.get(p, 0):
                raise Bad("size %d statistic %r: the specification counts %d, brute force %d" % (n, p, got.get(p, 0), truth.get(p, 0)))
        for params in ctx.start.possible_parameters(n):
            key = tuple(params[q] for q in ctx.start.extra_parameters)
            if len(set(key)) > 1:
                continue
            c = spec.count_objects_of_size(n, **params)
            if c != truth.get(key, 0):
                raise Bad("count_objects_of_size(%d, %r) = %d, brute force %d" % (n, params, c, truth.get(key, 0)))


ASSERT = assert_counts
PREPARE = None

# >>> e2e wrappers
# ---- end-to-end wrappers (same text in every module that uses harness/e2e.py; ASSERT / PREPARE are module globals)
def check_opt(t: int) -> bool:
    """
    pre: e2e.tin(t)
    post: _
    """
    return core.final(e2e.body_opt(t, ASSERT, PREPARE))


def check_sched(t: int, j: int) -> bool:
    """
    pre: e2e.tin(t) and 0 <= j <= e2e.NJ
    post: _
    """
    return core.final(e2e.body_sched(t, j, ASSERT, PREPARE))


def check_sched2(t: int, j0: int, j1: int) -> bool:
    """
    pre: e2e.tin(t) and 0 <= j0 < j1 <= e2e.NJ
    post: _
    """
    return core.final(e2e.body_sched2(t, j0, j1, ASSERT, PREPARE))


def check_rng(t: int, d0: int, d1: int, d2: int) -> bool:
    """
    pre: e2e.tin(t) and 0 <= d0 <= 2 and 0 <= d1 <= 2 and 0 <= d2 <= 2
    post: _
    """
    return core.final(e2e.body_rng(t, (d0, d1, d2), ASSERT, PREPARE))
# <<< e2e wrappers


def on_shape(shape):
    e2e.on_shape(shape)


def groups(tier):
    return e2e.std_groups(tier)


def selftest(tier):
    return e2e.selftest_universe(tier)


def meta(tier):
    from comb_spec_searcher import CombinatorialSpecificationSearcher as CSS, CombinatorialSpecification as Spec
    from comb_spec_searcher.rule_db.base import RuleDBBase
    from comb_spec_searcher.rule_db.forest import RuleDBForest
    from comb_spec_searcher.specification_extrator import SpecificationRuleExtractor
    from comb_spec_searcher.strategies.rule import Rule
    m = dict(e2e.COMMON_META)
    m.update({
        "functions": [CSS.auto_search, CSS._auto_search_rules, CSS._expand_classes_for, CSS._expand, CSS._expand_class_with_strategy,
                      CSS.add_rule, CSS.try_verify, CSS._symmetry_expand, CSS._inferral_expand, CSS.do_level, CSS.get_specification,
                      RuleDBBase.get_specification_rules, RuleDBForest.get_specification_rules, SpecificationRuleExtractor.rules,
                      Spec.__init__, Spec._group_equiv_in_path, Spec._set_subrules, Spec.get_terms, Spec.count_objects_of_size,
                      Rule._ensure_level],
        "bounds": {"quick": "all 64 DFA tables with 2 states x 3 rule databases x the option sets listed below (plain, iterative, inferral, symmetry, factory, "
                            "finite verification (+expand_verified), smallest, statistics k / kk / ku); one late clock reading at every reading "
                            "position of the run (plain pack, 3 databases); draw tapes of 3 draws in {0,1,2+}; do_level x3 + "
                            "get_specification; counts compared for n<=6 and every statistic value",
                   "thorough": "more option sets, late readings for 3 more packs, and all 2934 DFA tables with 3 states (mod renaming) "
                               "for 4 option sets x 3 databases"}[tier],
    })
    m["bounds"] = str(m.get("bounds", "")) + " || end-to-end groups of this run: " + e2e.describe_groups(groups(tier))
    return m
