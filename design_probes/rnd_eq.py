import random, sys
from comb_spec_searcher.equiv_db import EquivalenceDB
def reach(edges, L):
    r = [[i == j for j in range(L)] for i in range(L)]
    for a, b in edges: r[a][b] = True
    for k in range(L):
        for i in range(L):
            for j in range(L):
                if r[i][k] and r[k][j]: r[i][j] = True
    return r
rng = random.Random(int(sys.argv[1])); bad = {}
def note(k, info):
    bad[k] = bad.get(k, 0) + 1
    if bad[k] < 3: print(k, info)
for t in range(int(sys.argv[2])):
    L = rng.randint(1, 5); db = EquivalenceDB(); edges = []; two = []; ver = set(); hist = []
    for _ in range(rng.randint(1, 9)):
        k = rng.choice(['two', 'one', 'one', 'ver', 'cc'])
        a, b = rng.randrange(L), rng.randrange(L)
        hist.append((k, a, b))
        if k == 'two': db.add_two_way_edge(a, b); edges += [(a, b), (b, a)]
        elif k == 'one': db.add_one_way_edge(a, b); edges.append((a, b))
        elif k == 'ver': db.set_verified(a); ver.add(a)
        else:
            db.connect_cycles()
            r = reach([e for e in edges if e[0] != e[1]], L)
            for i in range(L):
                for j in range(L):
                    scc = r[i][j] and r[j][i]
                    try:
                        if db.equivalent(i, j) != scc: note('equiv', (hist, i, j, scc)); continue
                        if scc:
                            p = db.find_path(i, j)
                            if p[0] != i or p[-1] != j or any((x, y) not in edges for x, y in zip(p, p[1:])): note('path', (hist, i, j, p))
                    except Exception as e: note('exc ' + type(e).__name__, (hist, i, j))
                v = any(r[i][j] and r[j][i] and j in ver for j in range(L))
                if db.is_verified(i) != v: note('verified', (hist, i, v))
                if not (r[i][db[i]] and r[db[i]][i]): note('rep', (hist, i))
print('bad', bad)
