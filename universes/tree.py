"""TREE universe: k-ary plane trees counted by internal nodes.  The product rule N -> Z x T x ... x T has *repeated
children* (the same class several times), which the regular-language universe never produces.
Ground truth: `trees(n, k)` below (plain recursion, no library call)."""
import itertools
from functools import lru_cache

from comb_spec_searcher import (
    AtomStrategy,
    CartesianProductStrategy,
    CombinatorialClass,
    CombinatorialObject,
    DisjointUnionStrategy,
    StrategyPack,
)


class TW(str, CombinatorialObject):
    def size(self):
        return self.count("(") + self.count("z")


@lru_cache(maxsize=None)
def trees(n, k):
    """All k-ary plane trees with n internal nodes, as strings: '.' leaf, '(' children ')' node."""
    if n == 0:
        return ("." ,)
    out = []
    for sizes in itertools.product(range(n), repeat=k):
        if sum(sizes) != n - 1:
            continue
        for parts in itertools.product(*[trees(s, k) for s in sizes]):
            out.append("(" + "".join(parts) + ")")
    return tuple(out)


class TreeC(CombinatorialClass):
    """kind: T all trees, N non-empty trees, E the leaf (atom, size 0), Z the node marker (atom, size 1)"""

    def __init__(self, kind, k):
        self.kind = kind
        self.k = k

    def brute(self, n):
        if self.kind == "T":
            return list(trees(n, self.k))
        if self.kind == "N":
            return list(trees(n, self.k)) if n > 0 else []
        if self.kind == "E":
            return ["."] if n == 0 else []
        return ["z"] if n == 1 else []

    def is_empty(self):
        return False

    def is_atom(self):
        return self.kind in "EZ"

    def minimum_size_of_object(self):
        return {"T": 0, "N": 1, "E": 0, "Z": 1}[self.kind]

    def objects_of_size(self, n, **params):
        for w in self.brute(n):
            yield TW(w)

    def possible_parameters(self, n):
        yield {}

    def to_jsonable(self):
        d = super().to_jsonable()
        d.update(kind=self.kind, k=self.k)
        return d

    @classmethod
    def from_dict(cls, d):
        return cls(d["kind"], d["k"])

    def __eq__(self, o):
        return isinstance(o, TreeC) and (self.kind, self.k) == (o.kind, o.k)

    def __hash__(self):
        return "TNEZ".index(self.kind) * 7 + self.k

    def __repr__(self):
        return "Tree%s%d" % (self.kind, self.k)

    __str__ = __repr__


class _S:
    @classmethod
    def from_dict(cls, d):
        return cls(**d)

    def __repr__(self):
        return type(self).__name__ + "()"

    def __str__(self):
        return type(self).__name__


class SplitTree(_S, DisjointUnionStrategy):
    def decomposition_function(self, c):
        if c.kind != "T":
            return None
        return (TreeC("E", c.k), TreeC("N", c.k))

    def formal_step(self):
        return "leaf or node"

    def forward_map(self, c, obj, children=None):
        return (obj, None) if obj == "." else (None, obj)


def split_children(s):
    """children of the root of a node string"""
    assert s[0] == "(" and s[-1] == ")"
    out, depth, start = [], 0, 1
    for i in range(1, len(s) - 1):
        ch = s[i]
        if ch == "(":
            depth += 1
        elif ch == ")":
            depth -= 1
        if depth == 0:
            out.append(s[start:i + 1])
            start = i + 1
    return out


class FactorNode(_S, CartesianProductStrategy):
    def decomposition_function(self, c):
        if c.kind != "N":
            return None
        return (TreeC("Z", c.k),) + tuple(TreeC("T", c.k) for _ in range(c.k))

    def formal_step(self):
        return "root and subtrees"

    def backward_map(self, c, objs, children=None):
        yield TW("(" + "".join(objs[1:]) + ")")

    def forward_map(self, c, obj, children=None):
        return (TW("z"),) + tuple(TW(x) for x in split_children(obj))


class TreeU:
    """One universe: a start class of the TREE family."""

    def __init__(self, kind, k):
        self.kind, self.k = kind, k

    def start(self, stats=""):
        return TreeC(self.kind, self.k)

    def pack(self, opts=()):
        return StrategyPack(initial_strats=[FactorNode()], inferral_strats=[], expansion_strats=[[SplitTree()]],
                            ver_strats=[AtomStrategy()], name="tree", iterative=False)

    def truth(self, n):
        return TreeC(self.kind, self.k).brute(n)

    def __repr__(self):
        return "TreeU(%s,%d)" % (self.kind, self.k)


UNIVERSES = [TreeU("T", 2), TreeU("N", 2), TreeU("T", 3), TreeU("N", 3)]
