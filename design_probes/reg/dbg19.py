import sys, logging, logzero, traceback
sys.path.insert(0, '/tmp/probe/reg')
from reg2 import *
from comb_spec_searcher.rule_db import RuleDB, RuleDBForgetStrategy, RuleDBForest
logzero.loglevel(logging.CRITICAL)
seen = Counter()
for T in tables(3):
    for dbc in (RuleDB, RuleDBForgetStrategy, RuleDBForest):
        s = CombinatorialSpecificationSearcher(Lang(T, 0), mkpack(('finite',)), ruledb=dbc()); s.status = lambda elaborate: ""
        try: s.auto_search()
        except Exception as e:
            k = (dbc.__name__, type(e).__name__, str(e)[:70].replace('\n', ' ')); seen[k] += 1
            if seen[k] == 1: traceback.print_exc(); print(T.key())
print(seen)
