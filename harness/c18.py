"""C18 - JSON round trips preserve specifications, rules, packs, strategies, bijections.

Pattern D.  (a) strategies: the kind of strategy and its four setting bits are solver variables; round trip through
json.dumps/json.loads (C boundary, concrete) must give an equal strategy with the same settings; strategy equality must
not depend on how the instance was created (plain call vs. subscripted generic alias).  (b) every pack of the option
catalogue.  (c) end-to-end on REG (harness/e2e.py): every returned specification of the exploration is dumped and
reloaded: equal, same rule per class, same counts, same equations.  (d) bijections: see C12 (maps of the reloaded
bijection agree with the original's).
"""
import json

from comb_spec_searcher import AtomStrategy, CombinatorialSpecification, StrategyPack
from comb_spec_searcher.strategies.rule import AbstractRule
from comb_spec_searcher.strategies.strategy import AbstractStrategy, EmptyStrategy, strategy_from_dict

import harness.e2e as e2e
import universes.reg as R
from harness.e2e import Bad
from vlib import core
from vlib.core import NoTracing, pick

LAST_FAILURE = None
N = 5

KINDS = [R.SplitFirst, R.PeelPrefix, R.MergeState, R.SwapLetters, R.StatAtom, R.FiniteLang, AtomStrategy, EmptyStrategy,
         "EmptyStrategy[subscripted]", "MixFactory"]


def _fail(msg):
    global LAST_FAILURE
    LAST_FAILURE = msg
    return False


def roundtrip_strategy(kind, bits):
    K = KINDS[kind]
    flags = dict(zip(("ignore_parent", "inferrable", "possibly_empty", "workable"), bits))
    if K == "MixFactory":
        s = R.MixFactory(bits[0])
        twin = R.MixFactory(bits[0])
    elif K == "EmptyStrategy[subscripted]":
        s = EmptyStrategy[R.Lang, R.W]()
        twin = EmptyStrategy()
    elif K in (AtomStrategy, EmptyStrategy, R.StatAtom, R.FiniteLang):
        s = K()
        twin = K()
    else:
        s = K(**flags)
        twin = K(**flags)
    if not (s == twin and twin == s):
        return _fail("two %s instances with the same settings are not equal (created differently)" % (K if isinstance(K, str) else K.__name__))
    d = json.loads(json.dumps(s.to_jsonable()))
    s2 = strategy_from_dict(d)
    if not (s2 == s and s == s2):
        return _fail("%r is not equal to its JSON round trip %r" % (s, s2))
    if isinstance(s, AbstractStrategy):
        for f in ("ignore_parent", "inferrable", "possibly_empty", "workable"):
            if getattr(s2, f) != getattr(s, f):
                return _fail("%s of %r became %r after the round trip" % (f, s, getattr(s2, f)))
        # a strategy with another setting is a different strategy
        if K not in (AtomStrategy, EmptyStrategy, R.StatAtom, R.FiniteLang, "EmptyStrategy[subscripted]"):
            other = K(**{**flags, "workable": not flags["workable"]})
            if other == s:
                return _fail("strategies with different settings compare equal")
    return True


def check_strategy(kind: int, b0: bool, b1: bool, b2: bool, b3: bool) -> bool:
    """
    pre: 0 <= kind < 10
    post: _
    """
    k = pick(kind, 0, len(KINDS) - 1)
    bits = (bool(b0), bool(b1), bool(b2), bool(b3))
    bits = tuple(True if b else False for b in bits)
    with NoTracing():
        core.tally((k,) + bits)
        return core.final(roundtrip_strategy(k, bits))


PAIR_KINDS = [("FiniteLang", lambda v: R.FiniteLang(v // 2, bool(v % 2))), ("MixFactory", lambda v: R.MixFactory(bool(v % 2)))]


def roundtrip_pair(kind, x, y):
    """Two strategies of the same class whose *own* settings (not the four base flags) may differ are written and loaded one
    after the other in the same process: each must come back equal to itself (a loader must not hand out an earlier instance)."""
    name, mk = PAIR_KINDS[kind]
    for v in (x, y):
        s = mk(v)
        s2 = strategy_from_dict(json.loads(json.dumps(s.to_jsonable())))
        if not (s2 == s and s == s2) or repr(s2) != repr(s):
            return _fail("%r loaded after %r is not equal to its JSON round trip %r" % (s, mk(x), s2))
    return True


def check_strategy_pair(kind: int, x: int, y: int) -> bool:
    """
    pre: 0 <= kind < 2 and 0 <= x < 6 and 0 <= y < 6
    post: _
    """
    k = pick(kind, 0, 1)
    a = pick(x, 0, 5)
    b = pick(y, 0, 5)
    with NoTracing():
        core.tally((k, a, b))
        return core.final(roundtrip_pair(k, a, b))


PACK_OPTS = sorted(e2e.OPTSETS)


def check_pack(i: int) -> bool:
    """
    pre: 0 <= i < len(PACK_OPTS)
    post: _
    """
    k = pick(i, 0, len(PACK_OPTS) - 1)
    with NoTracing():
        core.tally((k,))
        popts, stats, ev, sm = e2e.OPTSETS[PACK_OPTS[k]]
        p = R.mkpack(popts + (("stats:" + stats,) if stats else ()))
        p2 = StrategyPack.from_dict(json.loads(json.dumps(p.to_jsonable())))
        if not (p2 == p and p == p2):
            return core.final(_fail("pack %s is not equal to its JSON round trip" % PACK_OPTS[k]))
        if [repr(s) for s in p2] != [repr(s) for s in p]:
            return core.final(_fail("pack %s lists other strategies after the round trip" % PACK_OPTS[k]))
        return core.final(True)


def assert_spec_roundtrip(ctx, spec=None):
    spec = spec if spec is not None else ctx.spec
    if spec is None:
        return
    # touch the lazily created empty rules first (they are part of the specification once asked for)
    for n in range(N + 1):
        spec.get_terms(n)
    text = json.dumps(spec.to_jsonable())
    spec2 = CombinatorialSpecification.from_dict(json.loads(text))
    if set(spec2.rules_dict) != set(spec.rules_dict):
        raise Bad("reloaded specification has rules for other classes")
    for c, r in spec.rules_dict.items():
        r2 = spec2.rules_dict[c]
        if type(r2) is not type(r) or tuple(r2.children) != tuple(r.children):
            raise Bad("rule of %r changed in the round trip: %r -> %r" % (c, type(r).__name__, type(r2).__name__))
        if not (r2 == r):
            raise Bad("rule of %r (%s) is not equal to its round trip" % (c, type(r).__name__))
        # each rule form on its own
        r3 = AbstractRule.from_dict(json.loads(json.dumps(r.to_jsonable())))
        if not (r3 == r) or tuple(r3.children) != tuple(r.children) or tuple(r3.shifts()) != tuple(r.shifts()):
            raise Bad("rule form %s does not survive its own JSON round trip" % type(r).__name__)
    if not (spec2 == spec and spec == spec2):
        raise Bad("the reloaded specification is not equal to the original")
    for n in range(N + 1):
        if spec2.get_terms(n) != spec.get_terms(n):
            raise Bad("counts of the reloaded specification differ at size %d" % n)
    if not ctx.stats:
        for n in range(4):
            outs = []
            for sp in (spec, spec2):
                try:
                    outs.append(sorted(sp.generate_objects_of_size(n)))
                except NotImplementedError:
                    outs.append("declined")  # specifications with complement/quotient rules have no object maps by design
            if outs[0] != outs[1]:
                raise Bad("objects of the reloaded specification differ at size %d" % n)
    e1 = sorted(str(e) for e in spec.get_equations())
    e2_ = sorted(str(e) for e in spec2.get_equations())
    if e1 != e2_:
        raise Bad("equations differ after the round trip")
    core.observe("specifications round-tripped")
    if any(isinstance(r.strategy, EmptyStrategy) for r in spec.rules_dict.values()):
        core.observe("specifications with a lazily added empty rule")


ASSERT = assert_spec_roundtrip
PREPARE = None

# >>> e2e wrappers
# ---- end-to-end wrappers (same text in every module that uses harness/e2e.py; ASSERT / PREPARE are module globals)
def check_opt(t: int) -> bool:
    """
    pre: e2e.tin(t)
    post: _
    """
    return core.final(e2e.body_opt(t, ASSERT, PREPARE))


def check_sched(t: int, j: int) -> bool:
    """
    pre: e2e.tin(t) and 0 <= j <= e2e.NJ
    post: _
    """
    return core.final(e2e.body_sched(t, j, ASSERT, PREPARE))


def check_sched2(t: int, j0: int, j1: int) -> bool:
    """
    pre: e2e.tin(t) and 0 <= j0 < j1 <= e2e.NJ
    post: _
    """
    return core.final(e2e.body_sched2(t, j0, j1, ASSERT, PREPARE))


def check_rng(t: int, d0: int, d1: int, d2: int) -> bool:
    """
    pre: e2e.tin(t) and 0 <= d0 <= 2 and 0 <= d1 <= 2 and 0 <= d2 <= 2
    post: _
    """
    return core.final(e2e.body_rng(t, (d0, d1, d2), ASSERT, PREPARE))
# <<< e2e wrappers


def on_shape(shape):
    if "db" in shape:
        e2e.on_shape(shape)


def groups(tier):
    gs = [{"name": "strategies", "fn": "check_strategy", "shape": {}, "cond_timeout": 600.0, "path_timeout": 60.0,
           "expect_space": len(KINDS) * 16, "weight": 200},
          {"name": "strategy-pairs", "fn": "check_strategy_pair", "shape": {}, "cond_timeout": 600.0, "path_timeout": 60.0,
           "expect_space": 72, "weight": 72},
          {"name": "packs", "fn": "check_pack", "shape": {}, "cond_timeout": 600.0, "path_timeout": 60.0,
           "expect_space": len(PACK_OPTS), "weight": 20}]
    return gs + e2e.std_groups(tier, sched=False, rng=(tier == "thorough"))


def selftest(tier):
    assert len(KINDS) == 10 and len(PACK_OPTS) >= 17, (len(KINDS), len(PACK_OPTS))
    return e2e.selftest_universe(tier)


def meta(tier):
    from comb_spec_searcher.strategies.rule import EquivalencePathRule, EquivalenceRule, ReverseRule, Rule, VerificationRule
    m = dict(e2e.COMMON_META)
    m.update({
        "functions": [AbstractStrategy.to_jsonable, AbstractStrategy.__eq__, strategy_from_dict, StrategyPack.to_jsonable, StrategyPack.from_dict,
                      CombinatorialSpecification.to_jsonable, CombinatorialSpecification.from_dict, Rule.to_jsonable, Rule.from_dict,
                      VerificationRule.to_jsonable, VerificationRule.from_dict, EquivalenceRule.to_jsonable, EquivalenceRule.from_dict,
                      EquivalencePathRule.to_jsonable, EquivalencePathRule.from_dict, ReverseRule.to_jsonable, ReverseRule.from_dict],
        "bounds": "(a) 10 strategy kinds x 16 setting combinations; (a') 72 ordered pairs of strategies of one class with own settings (FiniteLang(min_state, packless), "
                  "MixFactory(foreign_first)) loaded one after the other in one process; (b) all %d packs of the option catalogue; (c) every specification returned for 64 two-state tables x 3 "
                  "databases x the option sets listed below (thorough: more option sets, draw tapes, 3-state tables); counts compared to n<=5" % len(PACK_OPTS),
    })
    m["bounds"] = str(m.get("bounds", "")) + " || end-to-end groups of this run: " + e2e.describe_groups(groups(tier))
    return m
