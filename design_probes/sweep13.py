import itertools, logzero, logging, sys, traceback
logzero.loglevel(logging.CRITICAL)
from example import *
from comb_spec_searcher import *
from comb_spec_searcher.bijection import ParallelSpecFinder, EqPathParallelSpecFinder
from comb_spec_searcher.isomorphism import Bijection
def words(maxlen, alpha):
    for n in range(1, maxlen+1):
        for w in itertools.product(alpha, repeat=n): yield ''.join(w)
W = list(words(2, 'ab'))
sets = [c for r in (1,2) for c in itertools.combinations(W, r)]
def mk(p): return CombinatorialSpecificationSearcher(AvoidingWithPrefix('', p, ['a','b']), pack)
res = {}
for p1 in sets:
    for p2 in sets:
        try:
            s1, s2 = mk(p1), mk(p2)
            r = ParallelSpecFinder(s1, s2).find()
            k = 'none' if r is None else 'pair'
        except Exception as e:
            k = 'EXC ' + type(e).__name__ + ' ' + str(e)[:60].replace('\n',' ')
            if k not in res: print(p1, p2, k); 
        res[k] = res.get(k, 0) + 1
print(res)
