"""Native replay of one harness call (no CrossHair tracing).  stdin: JSON payload.
exit 11 = property violated (returned False / raised), 10 = held."""
import importlib
import json
import logging
import os
import sys
import traceback

VERIF = os.path.dirname(os.path.dirname(os.path.abspath(__file__)))
sys.path.insert(0, VERIF)


def _tuplify(x):
    # JSON turns tuples into lists; harness functions only ever index/iterate their arguments
    return x


def main():
    p = json.load(sys.stdin)
    import comb_spec_searcher  # noqa: F401
    import logzero
    logzero.loglevel(logging.CRITICAL)
    from vlib import core
    mod = importlib.import_module(p["module"])
    core.set_shape(p.get("shape"))
    if hasattr(mod, "on_shape"):
        mod.on_shape(p.get("shape"))
    core.TWIN = False
    fn = getattr(mod, p["fn"])
    try:
        r = fn(*p["args"], **p.get("kwargs", {}))
    except Exception as e:  # noqa: BLE001
        print("raised %s: %s | %s" % (type(e).__name__, e, traceback.format_exc().strip().splitlines()[-3:]))
        sys.exit(11)
    if r is False or not r:
        why = getattr(mod, "LAST_FAILURE", None)
        for name in ("harness.e2e",):
            if not why and name in sys.modules:
                why = getattr(sys.modules[name], "LAST_FAILURE", None)
        print("returned %r %s" % (r, why if why else ""))
        sys.exit(11)
    print("returned %r" % (r,))
    sys.exit(10)


main()
