import logzero, logging
import p_tm
from comb_spec_searcher.rule_db.forest import TableMethod, ForestRuleExtractor
from comb_spec_searcher.typing import ForestRuleKey, RuleBucket
logzero.loglevel(logging.CRITICAL)
B = [RuleBucket.VERIFICATION, RuleBucket.EQUIV, RuleBucket.NORMAL, RuleBucket.REVERSE]
class Stub: pass
def lfp_inf(rules, L, S, root):
    return p_tm.lfp([(x.parent, x.children, x.shifts) for x in rules], L, S).get(root, 0) is None
def check(s0: int, s1: int, s2: int, s3: int, b1: int, b3: int) -> bool:
    """
    pre: -2 <= s0 <= 2 and -2 <= s1 <= 2 and -2 <= s2 <= 2 and -2 <= s3 <= 2 and 0 <= b1 < 4 and 0 <= b3 < 4
    post: _
    """
    bk1 = B[0]; bk3 = B[0]
    for i in range(4):
        if b1 == i: bk1 = B[i]
        if b3 == i: bk3 = B[i]
    rules = [ForestRuleKey(2, (), (), RuleBucket.VERIFICATION), ForestRuleKey(0, (1, 2), (s0, s1), bk1),
             ForestRuleKey(1, (0,), (s2,), RuleBucket.NORMAL), ForestRuleKey(0, (2, 2), (s3, 1), bk3)]
    tm = TableMethod()
    for rk in rules: tm.add_rule_key(rk)
    if not tm.is_pumping(0): return True
    stub = Stub(); stub.table_method = tm
    ex = ForestRuleExtractor(0, stub, None, None); ex.check()
    need = ex.needed_rules
    lhs = [x.parent for x in need]
    if not lfp_inf(need, 3, 2, 0): return False
    if len(set(lhs)) != len(lhs): return False
    if not all(c in lhs for x in need for c in x.children): return False
    for i in range(len(need)):
        if lfp_inf([x for j, x in enumerate(need) if j != i], 3, 2, 0): return False
    if any(x.bucket == RuleBucket.REVERSE for x in need) and lfp_inf([x for x in rules if x.bucket != RuleBucket.REVERSE], 3, 2, 0): return False
    return True
