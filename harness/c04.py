"""C04 - the rule universe built by the searcher is faithful to the strategies.

End-to-end, pattern D on REG (harness/e2e.py) with a *recording* rule database: the harness wraps ruledb.add and
ClassDB.get_label of the searcher under test and logs every call of the whole run.  Every logged insertion is then
judged by independent code against the strategies and against brute force.
"""
from comb_spec_searcher.rule_db.base import RuleDBBase
from comb_spec_searcher.rule_db.forest import RuleDBForest
from comb_spec_searcher.strategies.strategy import EmptyStrategy

import harness.c02 as c02
import harness.e2e as e2e
import universes.reg as R
from harness.e2e import Bad
from vlib import core

LAST_FAILURE = None


def prepare(ctx):
    """Called before the searcher is constructed: wrap the rule database and the class database it will use."""
    ctx.adds = []
    ctx.labelled = []
    orig_add = ctx.db.add
    orig_get_label = ctx.classdb.get_label

    def add(start, ends, rule):
        ctx.adds.append((start, tuple(ends), rule))
        return orig_add(start, ends, rule)

    def get_label(key):
        lab = orig_get_label(key)
        if not isinstance(key, int):
            ctx.labelled.append((key, lab))
        return lab

    ctx.db.add = add
    ctx.classdb.get_label = get_label


def assert_faithful(ctx):
    s = ctx.searcher
    cdb = s.classdb
    pack = ctx.pack
    # labels <-> classes: dense, stable, one label per class
    seen = {}
    for c, lab in ctx.labelled:
        if c in seen and seen[c] != lab:
            raise Bad("class %r received labels %d and %d" % (c, seen[c], lab))
        seen[c] = lab
    labs = sorted(set(seen.values()))
    if labs != list(range(len(labs))):
        raise Bad("labels are not 0..n-1: %r" % (labs,))
    if len(set(seen.values())) != len(seen):
        raise Bad("two different classes share a label: %r" % (seen,))
    for c, lab in seen.items():
        if cdb.get_class(lab) != c:
            raise Bad("get_class(%d) = %r, the class labelled %d is %r" % (lab, cdb.get_class(lab), lab, c))
    for lab in labs:
        c = cdb.get_class(lab)
        if cdb.empty_list[lab] is not None and bool(cdb.empty_list[lab]) != c02.truly_empty(c):
            raise Bad("cached emptiness of %r is %r, brute force says %r" % (c, cdb.empty_list[lab], c02.truly_empty(c)))
    general, two_way = set(), set()
    empty_rules = {}
    for start, ends, rule in ctx.adds:
        parent = cdb.get_class(start)
        if parent != rule.comb_class:
            raise Bad("rule for %r was recorded under label %d which is %r" % (rule.comb_class, start, parent))
        kids = tuple(rule.children)
        if len(ends) != len(kids) or any(cdb.get_class(e) != ch for e, ch in zip(ends, kids)):
            raise Bad("recorded child labels %r are not the labels of the rule's children %r" % (ends, kids))
        if isinstance(rule.strategy, EmptyStrategy):
            if not c02.truly_empty(parent):
                raise Bad("empty rule recorded for %r which is not empty" % (parent,))
            empty_rules[start] = empty_rules.get(start, 0) + 1
        else:
            if rule.strategy.decomposition_function(parent) is None:
                raise Bad("a rule was recorded for %r by %r which does not apply to it" % (parent, rule.strategy))
            c02.check_genuine(pack, rule, "recorded rule", [cdb.get_class(l) for l in labs])
        if len(kids) == 1 and kids[0] == parent:
            raise Bad("a rule with the class itself as only child was recorded")
        for ch in kids:
            if c02.truly_empty(ch) and not rule.possibly_empty and not c02.truly_empty(parent):
                raise Bad("%r (not possibly empty) has the empty child %r" % (rule.strategy, ch))
        kept = tuple(sorted(e for e, ch in zip(ends, kids) if not (rule.possibly_empty and c02.truly_empty(ch))))
        if len(kept) == 1 and rule.is_two_way():
            # a two-way single-child rule supersedes earlier one-way rules between the same two classes
            general.discard((start, kept))
            general.discard((kept[0], (start,)))
            two_way.add((start, kept))
        else:
            general.add((start, kept))
    expected_keys = general | two_way
    db = s.ruledb
    if isinstance(db, RuleDBBase):
        stored = set(db)
        if stored != expected_keys:
            raise Bad("stored rules differ from the recorded insertions: only stored %r, only expected %r" % (
                sorted(stored - expected_keys), sorted(expected_keys - stored)))
    if isinstance(db, RuleDBForest):
        # every empty child of a possibly-empty rule got exactly one explicit empty rule
        for start, ends, rule in ctx.adds:
            if rule.possibly_empty:
                for e, ch in zip(ends, rule.children):
                    if c02.truly_empty(ch) and empty_rules.get(e, 0) != 1:
                        raise Bad("empty child %r (label %d) has %d explicit empty rules" % (ch, e, empty_rules.get(e, 0)))
        keys = [(rk.parent, rk.children) for rk in db.table_method._rules]
        for start, ends, rule in ctx.adds:
            if (start, ends) not in keys:
                raise Bad("forest database lost the rule %r -> %r" % (start, ends))
    core.observe("recorded insertions", len(ctx.adds))
    core.observe("labelled classes", len(labs))


ASSERT = assert_faithful
PREPARE = prepare

# >>> e2e wrappers
# ---- end-to-end wrappers (same text in every module that uses harness/e2e.py; ASSERT / PREPARE are module globals)
def check_opt(t: int) -> bool:
    """
    pre: e2e.tin(t)
    post: _
    """
    return core.final(e2e.body_opt(t, ASSERT, PREPARE))


def check_sched(t: int, j: int) -> bool:
    """
    pre: e2e.tin(t) and 0 <= j <= e2e.NJ
    post: _
    """
    return core.final(e2e.body_sched(t, j, ASSERT, PREPARE))


def check_sched2(t: int, j0: int, j1: int) -> bool:
    """
    pre: e2e.tin(t) and 0 <= j0 < j1 <= e2e.NJ
    post: _
    """
    return core.final(e2e.body_sched2(t, j0, j1, ASSERT, PREPARE))


def check_rng(t: int, d0: int, d1: int, d2: int) -> bool:
    """
    pre: e2e.tin(t) and 0 <= d0 <= 2 and 0 <= d1 <= 2 and 0 <= d2 <= 2
    post: _
    """
    return core.final(e2e.body_rng(t, (d0, d1, d2), ASSERT, PREPARE))
# <<< e2e wrappers


def on_shape(shape):
    e2e.on_shape(shape)


def groups(tier):
    opts = ["plain", "inferral", "symmetry", "factory", "factory2", "factory2-symmetry", "finite", "finite-ev", "k", "ku", "iterative", "oneway", "two", "drop"]
    if tier == "thorough":
        opts += ["inferral-symmetry", "inferral-factory-finite", "k-inferral", "ku-factory", "kk"]
    return e2e.std_groups(tier, opts=opts, rng=False)


def selftest(tier):
    return e2e.selftest_universe(tier)


def meta(tier):
    from comb_spec_searcher import CombinatorialSpecificationSearcher as CSS
    from comb_spec_searcher.class_db import ClassDB
    m = dict(e2e.COMMON_META)
    m.update({
        "functions": [CSS._rules_from_strategy, CSS._expand_class_with_strategy, CSS.add_rule, CSS._symmetry_expand, CSS._inferral_expand,
                      CSS.try_verify, RuleDBBase.add, RuleDBBase._clean_labels, RuleDBForest.add, RuleDBForest._add_empty_rule,
                      ClassDB.get_label, ClassDB.get_class, ClassDB.is_empty],
        "bounds": "all 64 two-state tables x 3 databases x the option sets listed below (incl. factories yielding a strategy, a ready rule and a rule for a "
                  "different parent in both orders, inferral chains, symmetries, verification with a pack, statistics), late clock readings; "
                  "every insertion of every run is checked (thorough: more option sets, 3-state tables)",
    })
    m["stubs"] = m["stubs"] + ["recording wrappers around ruledb.add and ClassDB.get_label of the searcher under test"]
    m["outside"] = m["outside"] + ["strategies that violate their contract (the property assumes they do not)"]
    m["bounds"] = str(m.get("bounds", "")) + " || end-to-end groups of this run: " + e2e.describe_groups(groups(tier))
    return m
