import sys; sys.path.insert(0, '/repo')
import logzero, logging
from example import *
from comb_spec_searcher import *
from comb_spec_searcher.strategies.strategy import VerificationStrategy
from comb_spec_searcher.rule_db import RuleDB, RuleDBForgetStrategy
logzero.loglevel(logging.CRITICAL)
class VerPrefixed(VerificationStrategy):
    def verified(self, c): return (not c.just_prefix) and len(c.prefix) >= 2
    def formal_step(self): return "brute"
    def get_terms(self, c, n): return c.get_terms(n)
    def get_objects(self, c, n): return c.get_objects(n)
    @classmethod
    def from_dict(cls, d): return cls()
p = StrategyPack(initial_strats=[RemoveFrontOfPrefix()], inferral_strats=[], expansion_strats=[[ExpansionStrategy()]], ver_strats=[AtomStrategy(), VerPrefixed()], name="x")
for db in (RuleDB, RuleDBForgetStrategy):
    s = CombinatorialSpecificationSearcher(AvoidingWithPrefix('', ['aaa', 'bb'], ['a', 'b']), p, ruledb=db())
    try:
        spec = s.auto_search()
        logzero.loglevel(logging.CRITICAL)
        print(db.__name__, [spec.count_objects_of_size(n) for n in range(7)], [len(list(AvoidingWithPrefix('', ['aaa','bb'], ['a','b']).objects_of_size(n))) for n in range(7)])
    except Exception as e:
        print(db.__name__, 'RAISES', type(e).__name__, str(e)[:100])
import itertools
def words(maxlen):
    for n in range(1, maxlen+1):
        for w in itertools.product('ab', repeat=n): yield ''.join(w)
W = list(words(3)); bad = 0; tot = 0
for ps in itertools.chain(itertools.combinations(W, 1), itertools.combinations(W, 2)):
    s = CombinatorialSpecificationSearcher(AvoidingWithPrefix('', ps, ['a', 'b']), p, ruledb=RuleDBForgetStrategy())
    try:
        for _ in range(4): s.do_level()
    except Exception: pass
    for key in list(s.ruledb):
        tot += 1
        try:
            try: s.ruledb.rule_to_strategy[key]
            except KeyError as e:
                if e.args and e.args[0] == key: s.ruledb.eqv_rule_to_strategy[key]
                else: raise
        except Exception as e:
            bad += 1
            if bad < 4: print(ps, key, type(e).__name__, str(e)[:80].replace('\n', ' '))
print('keys', tot, 'bad', bad)
