import sys, logging, logzero, time, traceback
sys.path.insert(0, '/tmp/probe/reg'); sys.path.insert(0, '/tmp/probe')
from reg2 import *
import p_tm
from comb_spec_searcher.rule_db import RuleDB, RuleDBForgetStrategy, RuleDBForest
from comb_spec_searcher.strategies.rule import EquivalencePathRule, EquivalenceRule, ReverseRule, VerificationRule, Rule
from comb_spec_searcher.strategies.strategy import EmptyStrategy, AbstractStrategy, StrategyFactory
from comb_spec_searcher.exception import StrategyDoesNotApply
logzero.loglevel(logging.CRITICAL)
def unfold(spec):
    for r in spec.rules_dict.values():
        if isinstance(r, EquivalencePathRule): yield from r.rules
        else: yield r
def pack_rules(pack, c):
    for st in pack:
        xs = st(c) if isinstance(st, StrategyFactory) else [st]
        for x in xs:
            if isinstance(x, AbstractStrategy):
                try: r = x(c)
                except StrategyDoesNotApply: continue
            else: r = x
            if r.comb_class == c: yield r
def base_rule(r):
    if isinstance(r, EquivalenceRule): return base_rule(r.original_rule)
    if isinstance(r, ReverseRule): return base_rule(r.original_rule)
    return r
def check_spec(spec, pack, start, truth_empty):
    rules = list(unfold(spec)); problems = []
    lhs = [r.comb_class for r in rules]
    if len(set(lhs)) != len(lhs): problems.append('dup-lhs')
    if start not in lhs: problems.append('no-root')
    for r in rules:
        for c in r.children:
            if c not in lhs and not truth_empty(c): problems.append(('unruled-child', c))
        if isinstance(r, VerificationRule) and isinstance(r.strategy, EmptyStrategy):
            if not truth_empty(r.comb_class): problems.append(('empty-rule-on-nonempty', r.comb_class))
            continue
        b = base_rule(r)
        cands = list(pack_rules(pack, b.comb_class))
        if not any(type(x.strategy) == type(b.strategy) and x.children == b.children for x in cands): problems.append(('not-genuine', r))
    # productivity
    lab = {c: i for i, c in enumerate(dict.fromkeys(lhs))}
    def L(c):
        if c not in lab: lab[c] = len(lab)
        return lab[c]
    keys = []
    for r in rules: keys.append((L(r.comb_class), tuple(L(c) for c in r.children), tuple(r.shifts())))
    for c in list(lab):
        if c not in lhs: keys.append((lab[c], (), ()))   # empty classes
    S = max([abs(s) for k in keys for s in k[2]] + [1])
    f = p_tm.lfp(keys, len(lab), S)
    for c, i in lab.items():
        if f.get(i, 0) is not None: problems.append(('not-productive', c, f.get(i, 0)))
    return problems
if __name__ == '__main__':
    S = int(sys.argv[1]); res = Counter(); t0 = time.time()
    OPTS = [(), ('finite',), ('inferral',), ('symmetry',), ('factory',), ('inferral', 'symmetry', 'factory', 'finite')]
    for T in tables(S):
        start = Lang(T, 0)
        for opts in OPTS:
            for dbc in (RuleDB, RuleDBForest):
                pk = mkpack(opts)
                s = CombinatorialSpecificationSearcher(start, pk, ruledb=dbc()); s.status = lambda elaborate: ""
                try: spec = s.auto_search()
                except Exception as e: res[('search-exc', type(e).__name__)] += 1; continue
                try:
                    pr = check_spec(spec, pk, start, lambda c: c.is_empty())
                except Exception as e:
                    res[('check-exc', type(e).__name__, str(e)[:50])] += 1
                    if res[('check-exc', type(e).__name__, str(e)[:50])] == 1: traceback.print_exc(); print(T.key(), opts, dbc.__name__)
                    continue
                k = tuple(sorted(set(p if isinstance(p, str) else p[0] for p in pr))) or ('ok',)
                res[k] += 1
                if k != ('ok',) and res[k] == 1: print(k, T.key(), opts, dbc.__name__, pr[:2]); print(spec)
    for k, v in sorted(res.items(), key=str): print(v, k)
    print(time.time() - t0)
