import sys, logging, logzero, traceback
sys.path.insert(0, '/tmp/probe/reg')
from reg2 import *
from comb_spec_searcher.rule_db import RuleDB, RuleDBForgetStrategy
logzero.loglevel(logging.CRITICAL)
T = Table(((0, 0), (0, 0)), (False, False))
sys.setrecursionlimit(200)
for dbc in (RuleDB, RuleDBForgetStrategy):
    s = CombinatorialSpecificationSearcher(Lang(T, 0), mkpack(('symmetry',)), ruledb=dbc()); s.status = lambda elaborate: ""
    try:
        spec = s.auto_search(); print(dbc.__name__, 'ok', [spec.count_objects_of_size(n) for n in range(4)])
    except Exception as e:
        tb = traceback.format_exc().splitlines(); print('\n'.join(tb[:30])); print('...'); print('\n'.join(tb[-6:]))
    db = s.ruledb
    print(dbc.__name__, 'rules', sorted(db.rule_to_strategy), 'eqv', sorted(db.eqv_rule_to_strategy))
