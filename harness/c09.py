"""C09 - every rule form counts its parent correctly from its children, with parameters.

Pattern T on the STUB universe.  A *configuration* (concrete, from a catalogue) fixes the rule kind,
arity, statistic names, the parent->child statistic maps, declared minimum sizes, atom / empty flags.
The solver variables are the entries of the children's term tables (finite classes: W consecutive sizes,
statistic values 0..V, counts 0..B).  The parent's true table is computed by reference code from the
documented semantics of a genuine rule; the real Rule / ReverseRule / EquivalenceRule /
EquivalencePathRule code must reproduce it (forward) or recover the counted child (reverse forms).
"""
import itertools
from collections import Counter
from typing import List

from comb_spec_searcher.strategies.constructor import CartesianProduct, Complement, DisjointUnion, Quotient
from comb_spec_searcher.strategies.rule import EquivalencePathRule, EquivalenceRule, ReverseRule, Rule

from universes.stub import K, Prod, Union
from vlib import core

LAST_FAILURE = None
LEN = 0
B = 2
LO: List[int] = []


def _fail(msg):
    global LAST_FAILURE
    LAST_FAILURE = msg
    return False


# ------------------------------------------------------------------ table layout
def child_entries(ch, W, V):
    """Keys (n, params) of the symbolic entries of one child."""
    if ch.get("empty"):
        return []
    if ch.get("atom"):
        return []
    keys = []
    mv = ch.get("minv", {})
    for n in range(ch["min"], ch["min"] + W):
        for vals in itertools.product(range(V + 1), repeat=len(ch["params"])):
            if all(v >= mv.get(p, 0) for p, v in zip(ch["params"], vals)):
                keys.append((n, vals))
    return keys


def layout(shape):
    """-> list of (child index, n, params) in the order of the symbolic vector, and lower bounds."""
    out = []
    lo = []
    for i, ch in enumerate(shape["children"]):
        ks = child_entries(ch, shape["W"], shape["V"])
        for j, (n, vals) in enumerate(ks):
            out.append((i, n, vals))
            # declared minimum size is attained (needed by the quotient: the cofactor polynomial is non-zero)
            lo.append(1 if (shape.get("exact_min") and j == 0) else 0)
    return out, lo


def on_shape(shape):
    global LEN, B, LO
    if shape.get("kind") == "path":
        LEN = len(master_keys(shape))
        LO = [0] * LEN
    else:
        lay, LO = layout(shape)
        LEN = len(lay)
    B = shape["B"]
    # the solver variables: exactly LEN integers (a fixed-arity tuple type avoids a symbolic list length)
    from typing import Tuple
    for f in (check, check_d):
        f.__annotations__["t"] = Tuple[(int,) * LEN] if LEN else Tuple[()]


def tables_from(shape, t):
    """child index -> {n: {params: count}}"""
    lay, _ = layout(shape)
    tabs = [dict() for _ in shape["children"]]
    for (i, n, vals), v in zip(lay, t):
        tabs[i].setdefault(n, {})[vals] = v
    for i, ch in enumerate(shape["children"]):
        if ch.get("atom") and not ch.get("empty"):
            mv = ch.get("minv", {})
            tabs[i] = {ch["min"]: {tuple(mv.get(p, 0) for p in ch["params"]): 1}}
    return tabs


CACHES = []


def provider(tab):
    """Like a rule of a specification, a provider hands out its *cached* Counter (the same object on every call); the
    rule forms under test must not modify it (checked by `caches_intact`)."""
    cache = {}
    CACHES.append((tab, cache))

    def f(n):
        if n not in cache:
            cache[n] = Counter(tab.get(n, {}))
        return cache[n]
    return f


def caches_intact():
    for tab, cache in CACHES:
        for n, got in cache.items():
            want = tab.get(n, {})
            for k in set(got) | set(want):
                if got.get(k, 0) != want.get(k, 0):
                    return _fail("a rule form modified the terms cached by one of its providers: size %d, %r became %r" % (n, want, dict(got)))
    return True


def mk_class(name, ch):
    return K(name, ch["min"], ch.get("atom", False), ch["params"], ch.get("minv"), ch.get("empty", False))


# ------------------------------------------------------------------ reference semantics of a genuine rule
def union_ref(shape, tabs):
    P = shape["parent"]["params"]
    res = {}
    for i, tab in enumerate(tabs):
        m = shape["maps"][i]
        cp = shape["children"][i]["params"]
        for n, row in tab.items():
            for vals, cnt in row.items():
                d = dict(zip(cp, vals))
                pp = tuple(d[m[q]] if q in m else 0 for q in P)
                r = res.setdefault(n, {})
                r[pp] = r.get(pp, 0) + cnt
    return res


def product_ref(shape, tabs):
    P = shape["parent"]["params"]
    res = {}
    rows = [[(n, vals, cnt) for n, row in tab.items() for vals, cnt in row.items()] for tab in tabs]
    for combo in itertools.product(*rows):
        n = sum(c[0] for c in combo)
        pp = [0] * len(P)
        cnt = 1
        for i, (ni, vals, c) in enumerate(combo):
            m = shape["maps"][i]
            d = dict(zip(shape["children"][i]["params"], vals))
            for qi, q in enumerate(P):
                if q in m:
                    pp[qi] += d[m[q]]
            cnt = cnt * c
        r = res.setdefault(n, {})
        r[tuple(pp)] = r.get(tuple(pp), 0) + cnt
    return res


def same(got, exp):
    for k in set(got) | set(exp):
        if got.get(k, 0) != exp.get(k, 0):
            return False
    return True


def reverse_admissible(shape, i):
    """The counted child's table is a function of the parent's and siblings' tables: every statistic of
    the child is the image of a parent statistic."""
    ch = shape["children"][i]
    if ch.get("empty"):
        return False
    return set(ch["params"]) <= set(shape["maps"][i].values())


def max_size(shape):
    W = shape["W"]
    tops = [(c["min"] if c.get("atom") else c["min"] + W - 1) for c in shape["children"] if not c.get("empty")]
    if shape["kind"] == "product":
        return sum(tops)
    return max(tops)


# ------------------------------------------------------------------ the check for union / product configurations
def run_config(shape, t):
    kids = [mk_class(i + 1, ch) for i, ch in enumerate(shape["children"])]
    live = [c for c, ch in zip(kids, shape["children"]) if not ch.get("empty")]
    if shape["kind"] == "product":
        pmin = sum(c.m for c in kids)
    else:
        pmin = min(c.m for c in live)
    parent = K(0, pmin, False, shape["parent"]["params"])
    strat = (Prod if shape["kind"] == "product" else Union)(kids, shape["maps"])
    tabs = tables_from(shape, t)
    ptab = (product_ref if shape["kind"] == "product" else union_ref)(shape, tabs)
    N = max_size(shape) + 1
    forms = shape["forms"]
    if "fwd" in forms:
        rule = strat(parent)
        rule.subterms = tuple(provider(tb) for tb in tabs)
        for n in range(N + 1):
            if not same(rule.get_terms(n), ptab.get(n, {})):
                return _fail("forward rule: terms of size %d are %r, true parent %r" % (n, dict(rule.get_terms(n)), ptab.get(n, {})))
    for i in range(len(kids)):
        if ("rev%d" % i) in forms and reverse_admissible(shape, i):
            rule = strat(parent)
            rr = rule.to_reverse_rule(i)
            sib = [provider(tb) for j, tb in enumerate(tabs) if j != i]
            rr.subterms = (provider(ptab),) + tuple(sib)
            for n in range(N + 1):
                if not same(rr.get_terms(n), tabs[i].get(n, {})):
                    return _fail("reverse rule counting child %d: size %d gives %r, true child %r" % (
                        i, n, dict(rr.get_terms(n)), tabs[i].get(n, {})))
    if "eq" in forms or "eqrev" in forms:
        idx = [i for i, ch in enumerate(shape["children"]) if not ch.get("empty")]
        assert len(idx) == 1
        i = idx[0]
        rule = strat(parent)
        if "eq" in forms:
            er = rule.to_equivalence_rule()
            er.subterms = (provider(tabs[i]),)
            for n in range(N + 1):
                if not same(er.get_terms(n), ptab.get(n, {})):
                    return _fail("equivalence form: size %d gives %r, true parent %r" % (n, dict(er.get_terms(n)), ptab.get(n, {})))
        if "eqrev" in forms and reverse_admissible(shape, i) and len(set(shape["maps"][i].values())) == len(shape["maps"][i]):
            er = strat(parent).to_equivalence_rule().to_reverse_rule(0)
            er.subterms = (provider(ptab),)
            for n in range(N + 1):
                if not same(er.get_terms(n), tabs[i].get(n, {})):
                    return _fail("reverse of the equivalence form: size %d gives %r, true child %r" % (
                        n, dict(er.get_terms(n)), tabs[i].get(n, {})))
            # the other construction order (equivalence form of the reverse rule)
            er2 = strat(parent).to_reverse_rule(i).to_equivalence_rule()
            er2.subterms = (provider(ptab),)
            for n in range(N + 1):
                if not same(er2.get_terms(n), tabs[i].get(n, {})):
                    return _fail("equivalence form of the reverse rule: size %d gives %r, true child %r" % (
                        n, dict(er2.get_terms(n)), tabs[i].get(n, {})))
    return True


# ------------------------------------------------------------------ equivalence paths (base-statistic model)
def master_keys(shape):
    keys = []
    for n in range(shape["min"], shape["min"] + shape["W"]):
        for vals in itertools.product(range(shape["V"] + 1), repeat=shape["nbase"]):
            keys.append((n, vals))
    return keys


def class_table(shape, cdesc, t):
    """cdesc["params"]: list of [name, base index or -1 for the constant-zero statistic]"""
    tab = {}
    for (n, vals), cnt in zip(master_keys(shape), t):
        pv = tuple(0 if b < 0 else vals[b] for _, b in cdesc["params"])
        r = tab.setdefault(n, {})
        r[pv] = r.get(pv, 0) + cnt
    return tab


def run_path(shape, t):
    classes = shape["classes"]
    ks = [K(10 + i, shape["min"], False, [p for p, _ in c["params"]]) for i, c in enumerate(classes)]
    tabs = [class_table(shape, c, t) for c in classes]
    empties = 0
    rules = []
    for s, st in enumerate(shape["steps"]):
        upper, lower = ks[s], ks[s + 1]
        if st["dir"] == "fwd":
            par, chd, m = upper, lower, st["map"]
        else:
            par, chd, m = lower, upper, st["map"]
        kids = []
        maps = []
        for pos in range(st["arity"]):
            if pos == st["pos"]:
                kids.append(chd)
                maps.append(m)
            else:
                empties += 1
                kids.append(K(100 + empties, 0, False, st.get("empty_params", []), None, True))
                maps.append(st.get("empty_map", {}))
        rule = Union(kids, maps)(par)
        if st["dir"] == "fwd":
            rules.append(rule.to_equivalence_rule())
        elif st.get("order", 0) == 0:
            rules.append(rule.to_equivalence_rule().to_reverse_rule(0))
        else:
            rules.append(rule.to_reverse_rule(st["pos"]).to_equivalence_rule())
    N = shape["min"] + shape["W"]
    # every single step on its own
    for s, r in enumerate(rules):
        r.subterms = (provider(tabs[s + 1]),)
        for n in range(N + 1):
            if not same(r.get_terms(n), tabs[s].get(n, {})):
                return _fail("step %d (%s): size %d gives %r, true %r" % (s, shape["steps"][s]["dir"], n,
                                                                           dict(r.get_terms(n)), tabs[s].get(n, {})))
    # fresh rules for the path (terms caches are per rule object)
    path = EquivalencePathRule(rules)
    path.terms_cache = type(path.terms_cache)()
    path.subterms = (provider(tabs[-1]),)
    for n in range(N + 1):
        if not same(path.get_terms(n), tabs[0].get(n, {})):
            return _fail("equivalence path: size %d gives %r, true parent %r" % (n, dict(path.get_terms(n)), tabs[0].get(n, {})))
    return True


def _bounds(t) -> bool:
    for i in range(LEN):
        if not (LO[i] <= t[i] <= B):
            return False
    return True


def check(t: List[int]) -> bool:
    """
    pre: _bounds(t)
    post: _
    """
    shape = core.SHAPE
    del CACHES[:]
    if shape["kind"] == "path":
        ok = run_path(shape, t)
    else:
        ok = run_config(shape, t)
    return core.final(ok and caches_intact())


def check_d(t: List[int]) -> bool:
    """
    pre: _bounds(t)
    post: _
    """
    # pattern D: configurations whose real code crosses into sympy's polynomial division (C boundary):
    # every table entry is forked here and the real code runs on builtin ints.
    shape = core.SHAPE
    vals = tuple(core.pick(t[i], LO[i], B) for i in range(LEN))
    with core.NoTracing():
        core.tally(vals)
        del CACHES[:]
        return core.final(run_config(shape, list(vals)) and caches_intact())


# ------------------------------------------------------------------ catalogue
def C(params=(), mn=0, atom=False, empty=False, minv=None):
    d = {"params": list(params), "min": mn, "atom": atom, "empty": empty}
    if minv:
        d["minv"] = minv
    return d


def cfg(name, kind, pparams, children, maps, forms, W=2, V=1, Bv=2, exact_min=False, mode="T"):
    return {"name": name, "kind": kind, "parent": {"params": list(pparams)}, "children": children, "maps": maps,
            "forms": forms, "W": W, "V": V, "B": Bv, "exact_min": exact_min, "mode": mode}


def catalogue(tier):
    cs = []
    # ---- unions
    cs.append(cfg("u2-nostat", "union", [], [C(mn=0), C(mn=1)], [{}, {}], ["fwd", "rev0", "rev1"], W=3, Bv=3))
    cs.append(cfg("u3-nostat", "union", [], [C(mn=0), C(mn=1), C(mn=1, atom=True)], [{}, {}, {}], ["fwd", "rev0", "rev1", "rev2"]))
    cs.append(cfg("u2-ident", "union", ["k"], [C(["k"], 0), C(["k"], 1)], [{"k": "k"}, {"k": "k"}], ["fwd", "rev0", "rev1"]))
    cs.append(cfg("u2-rename", "union", ["k"], [C(["a"], 0), C(["b"], 1)], [{"k": "a"}, {"k": "b"}], ["fwd", "rev0", "rev1"]))
    cs.append(cfg("u2-dropped", "union", ["k"], [C(["k"], 0), C([], 1)], [{"k": "k"}, {}], ["fwd", "rev0", "rev1"]))
    cs.append(cfg("u2-two-onto-one-sibling", "union", ["k", "l"], [C(["j"], 0), C(["k", "l"], 0)],
                  [{"k": "j", "l": "j"}, {"k": "k", "l": "l"}], ["fwd", "rev1"], W=1))
    cs.append(cfg("u2-two-onto-one-counted", "union", ["k", "l"], [C(["j"], 0), C(["k", "l"], 0)],
                  [{"k": "j", "l": "j"}, {"k": "k", "l": "l"}], ["rev0"], W=1))
    cs.append(cfg("u2-swap", "union", ["k", "l"], [C(["k", "l"], 0), C(["k", "l"], 1)],
                  [{"k": "l", "l": "k"}, {"k": "k", "l": "l"}], ["fwd", "rev0", "rev1"], W=1))
    cs.append(cfg("u2-child-tracks-more", "union", ["k"], [C(["k", "x"], 0), C(["k"], 1)],
                  [{"k": "k"}, {"k": "k"}], ["fwd", "rev1"], W=1))
    cs.append(cfg("u2-minvalue", "union", ["k"], [C(["k"], 1, minv={"k": 1}), C(["k"], 0)], [{"k": "k"}, {"k": "k"}],
                  ["fwd", "rev0", "rev1"]))
    # ---- equivalence forms (one non-empty child, in every position; empty classes carry other statistics)
    for pos in (0, 1, 2):
        kids = [C([], 0, empty=True), C(["e"], 0, empty=True)]
        kids.insert(pos, C(["a"], 1))
        maps = [{}, {"k": "e"}]
        maps.insert(pos, {"k": "a"})
        cs.append(cfg("eq-pos%d-rename" % pos, "union", ["k"], kids, maps, ["fwd", "eq", "eqrev", "rev%d" % pos], Bv=3))
    cs.append(cfg("eq-nostat", "union", [], [C([], 0, empty=True), C([], 1)], [{}, {}], ["fwd", "eq", "eqrev"], W=3, Bv=3))
    cs.append(cfg("eq-two-onto-one", "union", ["k", "l"], [C([], 0, empty=True), C(["j"], 0)], [{}, {"k": "j", "l": "j"}],
                  ["fwd", "eq"]))
    cs.append(cfg("eq-dropped", "union", ["k", "z"], [C(["k"], 0), C(["q"], 0, empty=True)], [{"k": "k"}, {"z": "q"}],
                  ["fwd", "eq", "eqrev"]))
    # ---- products
    cs.append(cfg("p2-nostat", "product", [], [C(mn=1), C(mn=0)], [{}, {}], ["fwd", "rev0", "rev1"], W=2, Bv=3, exact_min=True))
    cs.append(cfg("p2-atom", "product", [], [C(mn=1, atom=True), C(mn=0)], [{}, {}], ["fwd", "rev0", "rev1"], W=3, Bv=3, exact_min=True))
    cs.append(cfg("p3-nostat", "product", [], [C(mn=1, atom=True), C(mn=0), C(mn=1)], [{}, {}, {}],
                  ["fwd", "rev1", "rev2"], W=2, Bv=2, exact_min=True))
    cs.append(cfg("p2-ident", "product", ["k"], [C(["k"], 1), C(["k"], 0)], [{"k": "k"}, {"k": "k"}], ["fwd"]))
    cs.append(cfg("p2-rename-dropped", "product", ["k"], [C(["a"], 0), C([], 1)], [{"k": "a"}, {}], ["fwd"]))
    cs.append(cfg("p2-two-onto-one", "product", ["k", "l"], [C(["j"], 0), C(["l"], 0)], [{"k": "j", "l": "j"}, {"l": "l"}], ["fwd"]))
    cs.append(cfg("p2-swap", "product", ["k", "l"], [C(["k", "l"], 0), C([], 1, atom=True)], [{"k": "l", "l": "k"}, {}], ["fwd"]))
    cs.append(cfg("p2-atom-stat", "product", ["k"], [C(["k"], 1, atom=True, minv={"k": 1}), C(["k"], 0)],
                  [{"k": "k"}, {"k": "k"}], ["fwd", "rev1"], exact_min=True, mode="D"))
    cs.append(cfg("p2-quot-stat", "product", ["k"], [C(["k"], 0), C(["k"], 1, atom=True)], [{"k": "k"}, {"k": "k"}],
                  ["rev0"], exact_min=True, mode="D"))
    # ---- equivalence paths: classes carry statistics defined from base statistics b0, b1 (or -1: constant zero)
    def path(name, classes, steps, nbase=1, W=2, V=1, Bv=2):
        return {"name": name, "kind": "path", "classes": classes, "steps": steps, "nbase": nbase, "min": 1, "W": W, "V": V, "B": Bv}

    def cl(*ps):
        return {"params": [list(p) for p in ps]}

    cs.append(path("path-ff-rename", [cl(("k", 0)), cl(("a", 0)), cl(("b", 0))],
                   [{"dir": "fwd", "arity": 2, "pos": 1, "map": {"k": "a"}}, {"dir": "fwd", "arity": 2, "pos": 0, "map": {"a": "b"}}]))
    cs.append(path("path-fr-rename", [cl(("k", 0)), cl(("a", 0)), cl(("b", 0))],
                   [{"dir": "fwd", "arity": 2, "pos": 1, "map": {"k": "a"}},
                    {"dir": "rev", "arity": 2, "pos": 1, "map": {"b": "a"}, "order": 0}]))
    cs.append(path("path-rf-rename", [cl(("k", 0)), cl(("a", 0)), cl(("b", 0))],
                   [{"dir": "rev", "arity": 3, "pos": 2, "map": {"a": "k"}, "order": 1, "empty_params": ["e"], "empty_map": {"a": "e"}},
                    {"dir": "fwd", "arity": 1, "pos": 0, "map": {"a": "b"}}]))
    cs.append(path("path-fff-two-stats", [cl(("k", 0), ("l", 1)), cl(("l", 1), ("k", 0)), cl(("x", 0), ("y", 1)), cl(("y", 1), ("x", 0))],
                   [{"dir": "fwd", "arity": 1, "pos": 0, "map": {"k": "k", "l": "l"}},
                    {"dir": "fwd", "arity": 2, "pos": 1, "map": {"k": "x", "l": "y"}},
                    {"dir": "fwd", "arity": 2, "pos": 0, "map": {"x": "x", "y": "y"}}], nbase=2))
    cs.append(path("path-ff-dropzero", [cl(("k", 0), ("z", -1)), cl(("k", 0)), cl(("m", 0), ("w", -1))],
                   [{"dir": "fwd", "arity": 2, "pos": 0, "map": {"k": "k"}}, {"dir": "fwd", "arity": 2, "pos": 1, "map": {"k": "m"}}]))
    cs.append(path("path-frf", [cl(("k", 0)), cl(("a", 0)), cl(("b", 0)), cl(("c", 0))],
                   [{"dir": "fwd", "arity": 2, "pos": 1, "map": {"k": "a"}},
                    {"dir": "rev", "arity": 2, "pos": 0, "map": {"b": "a"}, "order": 1},
                    {"dir": "fwd", "arity": 2, "pos": 1, "map": {"b": "c"}}]))
    cs.append(path("path-nostat", [cl(), cl(), cl()],
                   [{"dir": "fwd", "arity": 2, "pos": 1, "map": {}}, {"dir": "rev", "arity": 2, "pos": 0, "map": {}, "order": 0}],
                   nbase=0, W=3, Bv=3))
    if tier == "thorough":
        # the same configurations with counts up to 3, and (statistics present) with statistic values 0..2 on a single size;
        # a variant is only kept if it has at most 10 symbolic entries (every entry forks on zero / non-zero)
        more = []
        for c in cs:
            variants = [dict(c, name=c["name"] + "-B3", B=3)]
            if c["kind"] == "path":
                if c["nbase"] >= 1:
                    variants.append(dict(c, name=c["name"] + "-V2", V=2, W=1, B=2))
            elif any(ch["params"] for ch in c["children"]):
                variants.append(dict(c, name=c["name"] + "-V2", V=2, W=1, B=2))
            for d in variants:
                on_shape(d)
                if LEN <= 10:
                    more.append(d)
        cs += more
    return cs


def groups(tier):
    gs = []
    for c in catalogue(tier):
        gs.append({"name": c["name"], "fn": "check_d" if c.get("mode") == "D" else "check", "shape": c, "cond_timeout": 900.0 if tier == "quick" else 2400.0,
                   "path_timeout": 120.0, "weight": 1})
    return gs


def selftest(tier):
    # the reference semantics reproduce counts typed into tests/test_rule.py style examples (brute force over words)
    # union: words over {a,b} of length n = (starting with a) + (starting with b), statistic k = number of a
    import math
    sh = cfg("t", "union", ["k"], [C(["k"], 1), C(["k"], 1)], [{"k": "k"}, {"k": "k"}], ["fwd"], W=2, V=2)
    ta = {n: {(k,): math.comb(n - 1, k - 1) for k in range(1, n + 1)} for n in (1, 2)}
    tb = {n: {(k,): math.comb(n - 1, k) for k in range(0, n)} for n in (1, 2)}
    u = union_ref(sh, [ta, tb])
    assert u[2] == {(2,): 1, (1,): 2, (0,): 1}, u
    sh = cfg("t", "product", ["k"], [C(["k"], 1), C(["k"], 1)], [{"k": "k"}, {"k": "k"}], ["fwd"])
    p = product_ref(sh, [{1: {(1,): 1, (0,): 1}}, {1: {(1,): 1, (0,): 1}}])
    assert p == {2: {(2,): 1, (1,): 2, (0,): 1}}, p
    # count the configurations that run natively on an all-ones table (informational: a failure here is left to the
    # solver run, which reports it with a replayable model)
    n = 0
    for c in catalogue("quick"):
        on_shape(c)
        core.set_shape(c)
        t = [max(1, l) for l in LO]
        try:
            ok = run_path(c, t) if c["kind"] == "path" else run_config(c, t)
        except Exception:  # noqa: BLE001
            ok = False
        n += 1 if ok else 0
    return {"configurations_smoke_tested": n}


def meta(tier):
    return {
        "functions": [Rule._ensure_level, Rule.get_terms, ReverseRule.constructor.fget, EquivalenceRule.__init__,
                      EquivalenceRule.constructor.fget, EquivalenceRule.to_reverse_rule, EquivalencePathRule.constructor.fget,
                      DisjointUnion.__init__, DisjointUnion.param_map, DisjointUnion.get_terms, DisjointUnion._build_children_param_maps,
                      Complement.__init__, Complement.get_terms, Complement._build_parent_param_map,
                      CartesianProduct.__init__, CartesianProduct.get_terms, CartesianProduct._new_param,
                      CartesianProduct._build_children_param_map, Quotient.__init__, Quotient.get_terms, Quotient._a, Quotient._b,
                      Quotient._c, Quotient._build_parent_param_map],
        "bounds": {"quick": "catalogue of %d configurations (unions / products of arity <=3, 0-2 statistics, maps: identity, renaming, dropped, "
                            "two-onto-one, swap, child tracking more; equivalence forms with the non-empty child in each position; paths "
                            "of 2-3 steps with reverse steps); children are finite classes with W=2..3 consecutive sizes, statistic "
                            "values 0..1, counts 0..2/3 - all symbolic" % len(catalogue("quick")),
                   "thorough": "the same catalogue plus each configuration with counts 0..3 and (with statistics) with statistic values 0..2 on one size"}[tier],
        "outside": [">2 statistics, arity >3", "children whose true terms violate the documented contracts (a dropped statistic that is "
                    "non-zero, terms below the declared minimum size)", "reverse forms whose counted child tracks a statistic the parent "
                    "does not (the child's table is then not a function of the inputs)",
                    "quotient with a sibling that has no object of its declared minimum size (declared minimum must be exact there)"],
        "stubs": ["stub classes K and stub strategies Union/Prod subclassing the real DisjointUnionStrategy/CartesianProductStrategy"],
        "assumptions": ["reference semantics of a genuine union / product with parameter maps (union_ref, product_ref), validated on word counts"],
    }
