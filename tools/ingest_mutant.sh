#!/bin/bash
# usage: tools/ingest_mutant.sh <PID> <mN>    (reads /tmp/wt/<PID>/_out/<mN>)
# Confirms in a private scratch worktree: demo passes clean; with patch: test-suite passes, demo fails.
set -u
pid=$1; m=$2
# round 2: SRC_ROOT=/tmp/wt2 BASE=<current /repo HEAD> TAG=r2  (defaults: first round, pinned commit)
src=${SRC_ROOT:-/tmp/wt}/$pid/_out/$m
vw=/tmp/vw_${pid}_${TAG:-}$m
dst=/verif/seeded/$pid-${TAG:-}$m
base=${BASE:-2993898}
[ -f $src/patch.diff ] || { echo "no patch"; exit 2; }
git -C /repo worktree add -q --detach $vw $base || exit 2
cleanup() { git -C /repo worktree remove --force $vw; }
trap cleanup EXIT
mkdir -p $vw/_out/$m; cp $src/demo.py $vw/_out/$m/
cd $vw
/venv/bin/python _out/$m/demo.py > /tmp/ingest_${pid}_$m.clean.log 2>&1; rc_clean=$?
git apply $src/patch.diff || { echo "patch does not apply"; exit 2; }
/venv/bin/python -m pytest -q -p no:cacheprovider --timeout=900 > /tmp/ingest_${pid}_$m.tests.log 2>&1; rc_tests=$?
/venv/bin/python _out/$m/demo.py > /tmp/ingest_${pid}_$m.mut.log 2>&1; rc_mut=$?
where=$(cd $vw && /venv/bin/python -c "import comb_spec_searcher; print(comb_spec_searcher.__file__)")
echo "$pid $m: demo clean rc=$rc_clean; tests with patch rc=$rc_tests ($(tail -1 /tmp/ingest_${pid}_$m.tests.log)); demo with patch rc=$rc_mut; imports $where"
if [ $rc_clean -eq 0 ] && [ $rc_tests -eq 0 ] && [ $rc_mut -ne 0 ]; then
  mkdir -p $dst; cp $src/patch.diff $src/demo.py $dst/; [ -f $src/notes.md ] && cp $src/notes.md $dst/
  /venv/bin/python - "$pid" "$m" "$dst" <<'PY'
import json, sys, os
pid, m, dst = sys.argv[1:4]
import subprocess
notes = open(os.path.join(dst, "notes.md")).read() if os.path.exists(os.path.join(dst, "notes.md")) else ""
meta = {"breaks_property": pid, "mutant": m, "written_by": "independent sub-agent given only the property text and a scratch worktree",
        "needs_to_manifest": notes.strip(),
        "base_commit": subprocess.check_output(["git", "-C", "/repo", "rev-parse", "--short", "HEAD"]).decode().strip() if ("r2" in dst or "r3" in dst) else "2993898 (pinned)",
        "confirmed": {"demo_on_base_tree": "exit 0", "test_suite_with_patch": "45 passed (pytest -q, scratch worktree)",
                      "demo_with_patch": "non-zero exit"},
        "how_to_run": "git -C /repo apply %s/patch.diff; cd /verif && /venv/bin/python run_check.py %s --tier quick; git -C /repo checkout -- ." % (dst, pid),
        "detected_by": "see DESIGN.md section 7 (seeded-change matrix)"}
json.dump(meta, open(os.path.join(dst, "meta.json"), "w"), indent=1)
PY
  echo "KEPT $dst"
else
  echo "REJECTED $pid $m"
fi
