"""REG universe: regular languages over {a,b} given by a DFA table, as combinatorial classes for the real
searcher.  Every table is a valid universe.  Ground truth = brute force over {a,b}^n through the DFA
(`words`, no library call).

Classes      Lang(table, q, prefix, atom, stats): { prefix.w : w accepted from state q }  (atom: just {prefix})
Statistics   stats "" none | "k" number of a | "kk" (k, k2) both the number of a, children track only k
             (two parent statistics onto one child statistic) | "ku" k, but a child from whose state no `a`
             can be read and whose prefix has no `a` does not track it (statistic dropped by a child)
Strategies   SplitFirst (disjoint union on the next letter, possibly_empty), PeelPrefix (Cartesian product
             Atom(prefix) x Lang(q, "")), MergeState (inferral onto the least state with an identical row),
             SwapLetters (symmetry, statistics-free), AtomStrategy / StatAtom (atoms), FiniteLang (verification with a
             pack), MixFactory (factory yielding a strategy, a ready rule and a rule for a different parent).
"""
import itertools
from collections import Counter, defaultdict

import sympy

from comb_spec_searcher import (
    AtomStrategy,
    CartesianProductStrategy,
    CombinatorialClass,
    CombinatorialObject,
    DisjointUnionStrategy,
    StrategyPack,
)
from comb_spec_searcher.exception import InvalidOperationError
from comb_spec_searcher.strategies.constructor.base import Constructor
from comb_spec_searcher.strategies.strategy import Strategy, StrategyFactory, SymmetryStrategy, VerificationStrategy


class W(str, CombinatorialObject):
    def size(self):
        return str.__len__(self)


# ----------------------------------------------------------------------------- tables and ground truth
class Table:
    def __init__(self, delta, acc):
        self.delta = tuple(tuple(r) for r in delta)
        self.acc = tuple(bool(a) for a in acc)
        self.S = len(self.acc)
        live = set(q for q in range(self.S) if self.acc[q])
        ch = True
        while ch:
            ch = False
            for q in range(self.S):
                if q not in live and any(self.delta[q][x] in live for x in (0, 1)):
                    live.add(q)
                    ch = True
        self.live = live

    def key(self):
        return (self.delta, self.acc)

    def accepts_from(self, q, w):
        for c in w:
            q = self.delta[q]["ab".index(c)]
        return self.acc[q]

    def dist(self, q, weight_a_only=False):
        """Shortest accepted word from q (length, or number of a's); None if nothing is accepted."""
        best = {q: 0}
        changed = True
        while changed:
            changed = False
            for s in list(best):
                for x in (0, 1):
                    t = self.delta[s][x]
                    d = best[s] + (1 if (not weight_a_only or x == 0) else 0)
                    if t not in best or d < best[t]:
                        best[t] = d
                        changed = True
        ds = [d for s, d in best.items() if self.acc[s]]
        return min(ds) if ds else None

    def a_readable(self, q):
        """Can a letter `a` occur in a word accepted from q?"""
        reach = {q}
        st = [q]
        while st:
            s = st.pop()
            for x in (0, 1):
                t = self.delta[s][x]
                if x == 0 and t in self.live:
                    return True
                if t not in reach:
                    reach.add(t)
                    st.append(t)
        return False

    def finite_from(self, q):
        reach = {q}
        st = [q]
        while st:
            x = st.pop()
            for y in self.delta[x]:
                if y not in reach:
                    reach.add(y)
                    st.append(y)
        liv = [x for x in reach if x in self.live]
        color = {}

        def dfs(x):
            color[x] = 1
            for y in self.delta[x]:
                if y not in self.live:
                    continue
                if color.get(y) == 1:
                    return True
                if y not in color and dfs(y):
                    return True
            color[x] = 2
            return False

        return not any(dfs(x) for x in liv if x not in color)

    def __repr__(self):
        return "Table(%r, %r)" % (self.delta, tuple(int(a) for a in self.acc))


def words(table, n, q=0, prefix=""):
    """Ground truth: all words prefix.w of total length n with w accepted from q."""
    m = n - len(prefix)
    if m < 0:
        return []
    return [prefix + "".join(w) for w in itertools.product("ab", repeat=m) if table.accepts_from(q, w)]


def tables(S):
    for delta in itertools.product(itertools.product(range(S), repeat=2), repeat=S):
        for acc in itertools.product((0, 1), repeat=S):
            yield Table(delta, acc)


def canonical_tables(S):
    """One table per class of renamings of the states 1..S-1 (state 0 is the start state); unreachable states
    are kept (they are different inputs although the language is the same)."""
    seen = set()
    out = []
    for t in tables(S):
        best = None
        for perm in itertools.permutations(range(1, S)):
            p = (0,) + perm
            inv = {p[i]: i for i in range(S)}
            delta = tuple(tuple(p[t.delta[inv[j]][x]] for x in (0, 1)) for j in range(S))
            acc = tuple(int(t.acc[inv[j]]) for j in range(S))
            k = (delta, acc)
            if best is None or k < best:
                best = k
        if best in seen:
            continue
        seen.add(best)
        out.append(Table(*best))
    return out


# ----------------------------------------------------------------------------- the class
PARAMS = {"": (), "k": ("k",), "kk": ("k", "k2"), "ku": ("k",)}


class Lang(CombinatorialClass):
    def __init__(self, table, q, prefix="", atom=False, stats=""):
        self.t = table
        self.q = q
        self.prefix = prefix
        self.atom = atom
        self.stats = stats

    @property
    def extra_parameters(self):
        return PARAMS[self.stats]

    def get_minimum_value(self, p):
        base = self.prefix.count("a")
        if self.atom:
            return base
        d = self.t.dist(self.q, weight_a_only=True)
        return base + (d or 0)

    def get_parameters(self, obj):
        return tuple(obj.count("a") for _ in self.extra_parameters)

    def possible_parameters(self, n):
        if not self.extra_parameters:
            yield {}
            return
        for k in range(n + 1):
            yield {p: k for p in self.extra_parameters}

    def is_empty(self):
        return (not self.atom) and self.q not in self.t.live

    def is_atom(self):
        return self.atom

    def minimum_size_of_object(self):
        if self.atom:
            return len(self.prefix)
        d = self.t.dist(self.q)
        return len(self.prefix) + (d or 0)

    def objects_of_size(self, n, **params):
        if self.atom:
            ws = [self.prefix] if n == len(self.prefix) else []
        else:
            ws = words(self.t, n, self.q, self.prefix)
        for w in ws:
            if all(w.count("a") == v for v in params.values()):
                yield W(w)

    def to_jsonable(self):
        d = super().to_jsonable()
        d.update(delta=self.t.delta, acc=[int(a) for a in self.t.acc], q=self.q, prefix=self.prefix, atom=self.atom, stats=self.stats)
        return d

    @classmethod
    def from_dict(cls, d):
        return cls(Table(d["delta"], d["acc"]), d["q"], d["prefix"], d["atom"], d["stats"])

    def _k(self):
        return (self.t.key(), self.q, self.prefix, self.atom, self.stats)

    def __eq__(self, o):
        return isinstance(o, Lang) and self._k() == o._k()

    def __hash__(self):
        h = 17 + self.q * 7 + (3 if self.atom else 0) + len(self.stats)
        for c in self.prefix:
            h = (h * 31 + ord(c)) % 1000003
        return h

    def __repr__(self):
        return "Lang(q=%d,pre=%r%s%s)" % (self.q, self.prefix, ",atom" if self.atom else "", "," + self.stats if self.stats else "")

    __str__ = __repr__


def child_stats(parent_stats, table, q, prefix, atom):
    """Statistics tracked by a child and the parent->child map of a rule."""
    if parent_stats == "":
        return "", {}
    if parent_stats == "k":
        return "k", {"k": "k"}
    if parent_stats == "kk":
        return "k", {"k": "k", "k2": "k"}
    # "ku": an untrackable child carries no statistic (the parent's k is 0 on all its objects)
    if "a" not in prefix and (atom or not table.a_readable(q)):
        return "", {}
    return "ku", {"k": "k"}


# ----------------------------------------------------------------------------- strategies
class _NoArgs:
    """REG strategies have no settings of their own; the four library flags survive a JSON round trip."""

    DEFAULTS: dict = {}

    def __init__(self, **flags):
        super().__init__(**{**self.DEFAULTS, **flags})

    @classmethod
    def from_dict(cls, d):
        return cls(**d)

    def __repr__(self):
        return type(self).__name__ + "()"

    def __str__(self):
        return type(self).__name__


class SplitFirst(_NoArgs, DisjointUnionStrategy):
    def _kids(self, c):
        if c.atom:
            return None
        out = []
        if c.t.acc[c.q]:
            out.append((c.q, c.prefix, True))
        for i, x in enumerate("ab"):
            out.append((c.t.delta[c.q][i], c.prefix + x, False))
        return out

    def decomposition_function(self, c):
        ks = self._kids(c)
        if ks is None:
            return None
        return tuple(Lang(c.t, q, pre, atom, child_stats(c.stats, c.t, q, pre, atom)[0]) for q, pre, atom in ks)

    def extra_parameters(self, c, children=None):
        return tuple(child_stats(c.stats, c.t, q, pre, atom)[1] for q, pre, atom in self._kids(c))

    def formal_step(self):
        return "split on the next letter"

    def forward_map(self, c, obj, children=None):
        ks = self._kids(c)
        res = [None] * len(ks)
        if len(obj) == len(c.prefix):
            res[0] = obj
            return tuple(res)
        off = 1 if c.t.acc[c.q] else 0
        res[off + "ab".index(obj[len(c.prefix)])] = obj
        return tuple(res)


class SplitTwo(_NoArgs, DisjointUnionStrategy):
    """Disjoint union on the next two letters (a second way to expand a class: several rules per class)."""

    def _kids(self, c):
        if c.atom:
            return None
        out = []
        if c.t.acc[c.q]:
            out.append((c.q, c.prefix, True))
        for i, x in enumerate("ab"):
            q1 = c.t.delta[c.q][i]
            if c.t.acc[q1]:
                out.append((q1, c.prefix + x, True))
        for i, x in enumerate("ab"):
            for j, y in enumerate("ab"):
                out.append((c.t.delta[c.t.delta[c.q][i]][j], c.prefix + x + y, False))
        return out

    def decomposition_function(self, c):
        ks = self._kids(c)
        if ks is None:
            return None
        return tuple(Lang(c.t, q, pre, atom, child_stats(c.stats, c.t, q, pre, atom)[0]) for q, pre, atom in ks)

    def extra_parameters(self, c, children=None):
        return tuple(child_stats(c.stats, c.t, q, pre, atom)[1] for q, pre, atom in self._kids(c))

    def formal_step(self):
        return "split on the next two letters"

    def forward_map(self, c, obj, children=None):
        ks = self._kids(c)
        res = [None] * len(ks)
        for i, (q, pre, atom) in enumerate(ks):
            if (atom and obj == pre) or (not atom and len(obj) >= len(pre) and obj[:len(pre)] == pre and len(pre) == len(c.prefix) + 2):
                res[i] = obj
                break
        return tuple(res)


def doubled(t):
    """The same language on a redundant automaton: every state in two copies, transitions alternate between the copies."""
    S = t.S
    delta = []
    for c in (0, 1):
        for q in range(S):
            delta.append(tuple(t.delta[q][x] + (1 - c) * S for x in (0, 1)))
    return Table(delta, tuple(t.acc) * 2)


class PeelPrefix(_NoArgs, CartesianProductStrategy):
    def _kids(self, c):
        if c.atom or not c.prefix or c.is_empty():
            return None
        return [(0, c.prefix, True), (c.q, "", False)]

    def decomposition_function(self, c):
        ks = self._kids(c)
        if ks is None:
            return None
        return tuple(Lang(c.t, q, pre, atom, child_stats(c.stats, c.t, q, pre, atom)[0]) for q, pre, atom in ks)

    def extra_parameters(self, c, children=None):
        return tuple(child_stats(c.stats, c.t, q, pre, atom)[1] for q, pre, atom in self._kids(c))

    def formal_step(self):
        return "peel the prefix"

    def backward_map(self, c, objs, children=None):
        yield W(objs[0] + objs[1])

    def forward_map(self, c, obj, children=None):
        return (W(c.prefix), W(obj[len(c.prefix):]))


class MergeState(_NoArgs, DisjointUnionStrategy):
    """Inferral: a state with the same row as a smaller state accepts the same language."""

    DEFAULTS = dict(ignore_parent=True, inferrable=True, possibly_empty=False, workable=True)

    def _target(self, c):
        if c.atom or c.is_empty():
            return None  # declared not possibly_empty: never applied to an empty class
        row = (c.t.delta[c.q], c.t.acc[c.q])
        for r in range(c.q):
            if (c.t.delta[r], c.t.acc[r]) == row:
                return r
        return None

    def decomposition_function(self, c):
        r = self._target(c)
        if r is None:
            return None
        return (Lang(c.t, r, c.prefix, False, c.stats),)

    def extra_parameters(self, c, children=None):
        return ({p: p for p in c.extra_parameters},)

    def formal_step(self):
        return "merge state"

    def forward_map(self, c, obj, children=None):
        return (obj,)


class RotateState(MergeState):
    """A *one-way* equivalence: a state is sent to the next state (cyclically) with an identical row.  Several states
    with identical rows give a cycle of one-way rules, which the default rule database has to detect and collapse."""

    DEFAULTS = dict(ignore_parent=False, inferrable=False, possibly_empty=False, workable=True)

    def is_two_way(self, comb_class):
        return False

    def _target(self, c):
        if c.atom or c.is_empty():
            return None
        row = (c.t.delta[c.q], c.t.acc[c.q])
        for k in range(1, c.t.S):
            r = (c.q + k) % c.t.S
            if (c.t.delta[r], c.t.acc[r]) == row:
                return r
        return None

    def formal_step(self):
        return "rotate to the next identical state (one way)"


def swap_table(t):
    return Table(tuple((r[1], r[0]) for r in t.delta), t.acc)


def swap_word(w):
    return W("".join("b" if ch == "a" else "a" for ch in w))


class SwapLetters(_NoArgs, SymmetryStrategy):
    def decomposition_function(self, c):
        if c.stats:
            return None
        return (Lang(swap_table(c.t), c.q, swap_word(c.prefix), c.atom, c.stats),)

    def extra_parameters(self, c, children=None):
        return ({},)

    def formal_step(self):
        return "swap letters"

    def forward_map(self, c, obj, children=None):
        return (swap_word(obj),)

    def backward_map(self, c, objs, children=None):
        yield swap_word(objs[0])


class StatAtom(_NoArgs, VerificationStrategy):
    """Atoms of classes with statistics (the library's AtomStrategy declines those by design)."""

    def __init__(self):
        VerificationStrategy.__init__(self, ignore_parent=True)

    @classmethod
    def from_dict(cls, d):
        return cls()

    def verified(self, c):
        return bool(c.is_atom())

    def formal_step(self):
        return "is atom (with statistics)"

    def _param(self, c):
        return tuple(c.prefix.count("a") for _ in c.extra_parameters)

    def get_terms(self, c, n):
        return Counter({self._param(c): 1}) if n == len(c.prefix) else Counter()

    def get_objects(self, c, n):
        d = defaultdict(list)
        if n == len(c.prefix):
            d[self._param(c)].append(W(c.prefix))
        return d

    def random_sample_object_of_size(self, c, n, **parameters):
        if n != len(c.prefix) or any(v != c.prefix.count("a") for v in parameters.values()):
            raise ValueError("no such object")
        return W(c.prefix)

    def get_genf(self, c, funcs=None):
        x = sympy.var("x")
        res = x ** len(c.prefix)
        for p in c.extra_parameters:
            res *= sympy.var(p) ** c.prefix.count("a")
        return res

    def to_jsonable(self):
        d = super().to_jsonable()
        d.pop("ignore_parent")
        return d


class FiniteLang(VerificationStrategy):
    """Verifies finite (non-atom, non-empty) languages of states >= min_state.  The pack it offers for a class contains
    FiniteLang(state + 1): verification nests.  With packless_even it declines to offer a pack for classes of even states
    and counts / generates those by its own means (brute force through the DFA)."""

    def __init__(self, min_state=0, packless_even=False):
        VerificationStrategy.__init__(self)
        self.min_state = min_state
        self.packless_even = packless_even

    def verified(self, c):
        return (not c.atom) and (not c.is_empty()) and c.q >= self.min_state and c.t.finite_from(c.q)

    def formal_step(self):
        return "finite language"

    def _packless(self, c):
        return self.packless_even and c.q % 2 == 0

    def pack(self, c):
        if self._packless(c):
            raise InvalidOperationError("no pack offered for this class")
        opts = (("stats:" + c.stats,) if c.stats else ())
        return mkpack(opts, finite=FiniteLang(c.q + 1, self.packless_even))

    def get_terms(self, c, n):
        if self._packless(c):
            return Counter(c.get_parameters(w) for w in c.objects_of_size(n))
        return super().get_terms(c, n)

    def get_objects(self, c, n):
        if self._packless(c):
            d = defaultdict(list)
            for w in c.objects_of_size(n):
                d[c.get_parameters(w)].append(w)
            return d
        return super().get_objects(c, n)

    def random_sample_object_of_size(self, c, n, **parameters):
        if self._packless(c):
            objs = list(c.objects_of_size(n, **parameters))
            return objs[0]
        return super().random_sample_object_of_size(c, n, **parameters)

    def get_genf(self, c, funcs=None):
        if self._packless(c):
            x = sympy.var("x")
            res = sympy.Integer(0)
            for n in range(len(c.prefix), len(c.prefix) + c.t.S + 1):
                for w in c.objects_of_size(n):
                    term = x ** n
                    for p in c.extra_parameters:
                        term *= sympy.var(p) ** w.count("a")
                    res += term
            return res
        return super().get_genf(c, funcs)

    def to_jsonable(self):
        d = super().to_jsonable()
        d.pop("ignore_parent")
        d["min_state"] = self.min_state
        d["packless_even"] = self.packless_even
        return d

    @classmethod
    def from_dict(cls, d):
        return cls(d.get("min_state", 0), d.get("packless_even", False))

    def __repr__(self):
        return "FiniteLang(%d,%r)" % (self.min_state, self.packless_even)

    def __str__(self):
        return "FiniteLang"


class MixFactory(StrategyFactory):
    """Yields a strategy, a ready rule and a rule for a different parent (in either order)."""

    def __init__(self, foreign_first=False):
        self.foreign_first = foreign_first

    def __call__(self, c):
        applies = not c.atom and c.prefix and not c.is_empty()
        root = Lang(c.t, c.q, "", False, child_stats(c.stats, c.t, c.q, "", False)[0]) if applies else None
        if applies and self.foreign_first:
            yield SplitFirst()(root)  # a rule whose parent is a different class
        yield SplitFirst()
        if applies:
            yield PeelPrefix()(c)  # a ready rule
            if not self.foreign_first:
                yield SplitFirst()(root)

    def to_jsonable(self):
        d = super().to_jsonable()
        d["foreign_first"] = self.foreign_first
        return d

    @classmethod
    def from_dict(cls, d):
        return cls(d.get("foreign_first", False))

    def __repr__(self):
        return "MixFactory(%r)" % self.foreign_first

    def __str__(self):
        return "MixFactory"


class Shift(Constructor):
    """The parent's objects are the child's objects with k more letters: a(n) = b(n - k).  Not an equivalence."""

    def __init__(self, k):
        self.k = k

    def can_be_equivalent(self):
        return False

    def get_equation(self, lhs_func, rhs_funcs):
        return sympy.Eq(lhs_func, sympy.var("x") ** self.k * rhs_funcs[0])

    def reliance_profile(self, n, **parameters):
        raise NotImplementedError

    def get_terms(self, parent_terms, subterms, n):
        return Counter(subterms[0](n - self.k)) if n - self.k >= 0 else Counter()

    def get_sub_objects(self, subobjs, n):
        if n - self.k >= 0:
            for param, objs in subobjs[0](n - self.k).items():
                yield (param, (objs,))

    def random_sample_sub_objects(self, parent_count, subsamplers, subrecs, n, **parameters):
        return (subsamplers[0](n=n - self.k, **parameters),)

    def equiv(self, other, data=None):
        return (isinstance(other, Shift) and other.k == self.k, None)

    def __str__(self):
        return "shift by %d" % self.k


class Drop(_NoArgs, Strategy):
    """Lang(q, prefix) -> Lang(q, ""): forget the prefix.  A two-way one-child rule that shifts the size, hence not an
    equivalence: the default rule database nevertheless puts both classes into one equivalence class."""

    DEFAULTS = dict(ignore_parent=True, inferrable=False, possibly_empty=False, workable=True)

    def can_be_equivalent(self):
        return False

    def is_two_way(self, comb_class):
        return True

    def is_reversible(self, comb_class):
        return True

    def shifts(self, comb_class, children=None):
        return (len(comb_class.prefix),)

    def decomposition_function(self, c):
        if c.atom or not c.prefix or c.stats or c.is_empty():
            return None
        return (Lang(c.t, c.q, "", False, ""),)

    def constructor(self, comb_class, children=None):
        return Shift(len(comb_class.prefix))

    def reverse_constructor(self, idx, comb_class, children=None):
        return Shift(-len(comb_class.prefix))

    def formal_step(self):
        return "drop the prefix"

    def backward_map(self, c, objs, children=None):
        yield W(c.prefix + objs[0])

    def forward_map(self, c, obj, children=None):
        return (W(obj[len(c.prefix):]),)


class SplitFirstOpaque(SplitFirst):
    """SplitFirst that declines on the start class Lang(0, ""): that class can then only be specified backwards, as the
    quotient of Lang(0, x) = Atom(x) x Lang(0, "") where Lang(0, x) is the complement of a predecessor's split."""

    def _kids(self, c):
        if c.q == 0 and c.prefix == "" and not c.atom:
            return None
        return super()._kids(c)


class OracleVer(VerificationStrategy):
    """Verifies Lang(p, "") for p != 0 and counts it by its own means (brute force; exact rational generating function
    from the linear system of the automaton).  No pack."""

    def __init__(self):
        VerificationStrategy.__init__(self)

    def verified(self, c):
        return (not c.atom) and c.prefix == "" and c.q != 0 and not c.is_empty()

    def formal_step(self):
        return "oracle"

    def get_terms(self, c, n):
        return Counter(c.get_parameters(w) for w in c.objects_of_size(n))

    def get_objects(self, c, n):
        d = defaultdict(list)
        for w in c.objects_of_size(n):
            d[c.get_parameters(w)].append(w)
        return d

    def random_sample_object_of_size(self, c, n, **parameters):
        return list(c.objects_of_size(n, **parameters))[0]

    def get_genf(self, c, funcs=None):
        x = sympy.var("x")
        wa = x
        for p in c.extra_parameters:
            wa = wa * sympy.var(p)
        L = [sympy.Symbol("L%d" % q) for q in range(c.t.S)]
        eqs = [sympy.Eq(L[q], (1 if c.t.acc[q] else 0) + wa * L[c.t.delta[q][0]] + x * L[c.t.delta[q][1]]) for q in range(c.t.S)]
        sol = sympy.solve(eqs, L, dict=True)[0]
        return sympy.simplify(sol[L[c.q]])

    def to_jsonable(self):
        d = super().to_jsonable()
        d.pop("ignore_parent")
        return d

    @classmethod
    def from_dict(cls, d):
        return cls()

    def __repr__(self):
        return "OracleVer()"

    def __str__(self):
        return "OracleVer"


class BackFactory(StrategyFactory):
    """On the start class Lang(0, "") yields, for every predecessor state p != 0 of state 0, the split rule of Lang(p, "")
    and its verification: rules whose parent is a different class."""

    def __call__(self, c):
        if c.atom or c.prefix != "" or c.q != 0:
            return
        for p in range(1, c.t.S):
            if 0 in c.t.delta[p] and p in c.t.live:
                P = Lang(c.t, p, "", False, c.stats)
                yield SplitFirst()(P)
                yield OracleVer()(P)

    def to_jsonable(self):
        return super().to_jsonable()

    @classmethod
    def from_dict(cls, d):
        return cls()

    def __repr__(self):
        return "BackFactory()"

    def __str__(self):
        return "BackFactory"


OPTION_NAMES = ("iterative", "inferral", "symmetry", "factory", "factory2", "finite", "finite-mixed", "two", "oneway", "opaque", "drop")


def mkpack(opts=(), finite=None):
    """opts: subset of OPTION_NAMES plus optionally 'stats:<mode>'; finite: a FiniteLang instance to add"""
    stats = ""
    for o in opts:
        if o.startswith("stats:"):
            stats = o[6:]
    if finite is None and "finite" in opts:
        finite = FiniteLang(0, False)
    if finite is None and "finite-mixed" in opts:
        finite = FiniteLang(0, True)
    ver = [StatAtom() if stats else AtomStrategy()] + ([finite] if finite is not None else [])
    inf = [MergeState()] if "inferral" in opts else []
    sym = [SwapLetters()] if ("symmetry" in opts and not stats) else []
    exp = [[MixFactory("factory2" in opts)]] if ("factory" in opts or "factory2" in opts) else [[SplitFirst()]]
    if "two" in opts:
        exp = [exp[0] + [SplitTwo()]]
    if "opaque" in opts:
        exp = [[SplitFirstOpaque(), BackFactory()]]
        ver = ver + [OracleVer()]
    # with a factory in the pack the prefix is peeled by the factory's ready rule, not by an initial strategy
    init = [] if ("factory" in opts or "factory2" in opts) else [PeelPrefix()]
    if "drop" in opts and not stats:
        init = [Drop()]
    if "oneway" in opts:
        # a one-way rule between two classes first (initial strategy), later a two-way rule between the same classes
        init = init + [RotateState()]
        exp = exp + [[MergeState(ignore_parent=False)]]
    return StrategyPack(initial_strats=init, inferral_strats=inf, expansion_strats=exp, ver_strats=ver,
                        symmetries=sym, name="reg", iterative="iterative" in opts)


def start_class(table, stats=""):
    return Lang(table, 0, "", False, stats)


# ----------------------------------------------------------------------------- self-test of the universe
def selftest_table(t, stats_modes=("", "k", "kk", "ku"), N=4):
    """Every strategy honours the documented contracts on this table (checked against brute force)."""
    for stats in stats_modes:
        todo = [start_class(t, stats)]
        seen = set()
        while todo:
            c = todo.pop()
            if c in seen or len(c.prefix) > 3:
                continue
            seen.add(c)
            objs = {n: sorted(c.objects_of_size(n)) for n in range(N + 1)}
            truth = {n: sorted(([c.prefix] if n == len(c.prefix) else []) if c.atom else words(c.t, n, c.q, c.prefix)) for n in range(N + 1)}
            assert objs == truth, (c, objs, truth)
            assert c.is_empty() == (not any(words(c.t, n, c.q, c.prefix) for n in range(len(c.prefix), len(c.prefix) + c.t.S + 1)) and not c.atom), c
            if not c.is_empty():
                assert c.minimum_size_of_object() == min(n for n in range(len(c.prefix) + c.t.S + 2) if (c.atom and n == len(c.prefix)) or (not c.atom and words(c.t, n, c.q, c.prefix))), c
            for strat in (SplitFirst(), SplitTwo(), PeelPrefix(), MergeState(), RotateState()) + ((SwapLetters(), Drop()) if not stats else ()):
                kids = strat.decomposition_function(c)
                if kids is None:
                    continue
                maps = strat.extra_parameters(c, kids)
                for n in range(N + 1):
                    for o in objs[n]:
                        parts = strat.forward_map(c, W(o), kids)
                        assert len(parts) == len(kids)
                        pvals = dict(zip(c.extra_parameters, c.get_parameters(o)))
                        if isinstance(strat, Drop):
                            assert parts[0] in set(kids[0].objects_of_size(len(parts[0]))) and len(parts[0]) == len(o) - len(c.prefix)
                            assert list(strat.backward_map(c, parts, kids)) == [o]
                        elif isinstance(strat, CartesianProductStrategy):
                            assert all(p is not None and p in set(k.objects_of_size(len(p))) for p, k in zip(parts, kids)), (c, strat, o, parts)
                            for q in c.extra_parameters:
                                tot = sum(dict(zip(k.extra_parameters, k.get_parameters(p)))[m[q]] for p, k, m in zip(parts, kids, maps) if q in m)
                                assert tot == pvals[q], (c, strat, o)
                            assert list(strat.backward_map(c, parts, kids)) == [o]
                        else:
                            idx = [i for i, p in enumerate(parts) if p is not None]
                            assert len(idx) == 1, (c, strat, o, parts)
                            i = idx[0]
                            assert parts[i] in set(kids[i].objects_of_size(len(parts[i]))), (c, strat, o)
                            cvals = dict(zip(kids[i].extra_parameters, kids[i].get_parameters(parts[i])))
                            for q in c.extra_parameters:
                                assert pvals[q] == (cvals[maps[i][q]] if q in maps[i] else 0), (c, strat, o, maps[i])
                            assert list(strat.backward_map(c, parts, kids)) == [o] or isinstance(strat, SwapLetters) and list(strat.backward_map(c, parts, kids)) == [o]
                    # children partition / factor the parent: sizes match
                    if isinstance(strat, Drop):
                        cnt = len(list(kids[0].objects_of_size(n - len(c.prefix)))) if n >= len(c.prefix) else 0
                    elif isinstance(strat, CartesianProductStrategy):
                        cnt = sum(len(list(kids[0].objects_of_size(i))) * len(list(kids[1].objects_of_size(n - i))) for i in range(n + 1))
                    else:
                        cnt = sum(len(list(k.objects_of_size(n))) for k in kids)
                    assert cnt == len(objs[n]), (c, strat, n)
                todo.extend(kids)
    return True
