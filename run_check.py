#!/venv/bin/python
"""Entry point of every registered check:  run_check.py <ID> --tier quick|thorough [--replay FILE]"""
import os
import sys

HERE = os.path.dirname(os.path.abspath(__file__))
sys.path.insert(0, HERE)
from vlib.bootstrap import reexec_in_venv  # noqa: E402

if __name__ == "__main__":
    reexec_in_venv([os.path.join(HERE, "run_check.py")] + sys.argv[1:])
    from vlib.driver import main
    sys.exit(main(sys.argv[1:]))
