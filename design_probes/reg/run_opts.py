import sys, logging, logzero, time, traceback, json
sys.path.insert(0, '/tmp/probe/reg')
from reg2 import *
from comb_spec_searcher.rule_db import RuleDB, RuleDBForgetStrategy, RuleDBForest
from comb_spec_searcher.exception import SpecificationNotFound
from comb_spec_searcher import CombinatorialSpecification
logzero.loglevel(logging.CRITICAL)
S = int(sys.argv[1]); N = 6; res = Counter(); t0 = time.time()
OPTS = [(), ('finite',), ('inferral',), ('symmetry',), ('factory',), ('finite', 'inferral', 'symmetry', 'factory')]
for T in tables(S):
    start = Lang(T, 0)
    truth = [sorted(start.objects_of_size(n)) for n in range(N + 1)]
    for opts in OPTS:
        for dbc in (RuleDB, RuleDBForgetStrategy, RuleDBForest):
            for ev in (False, True):
                s = CombinatorialSpecificationSearcher(start, mkpack(opts), ruledb=dbc(), expand_verified=ev); s.status = lambda elaborate: ""
                try:
                    spec = s.auto_search()
                    ok = all(sorted(spec.generate_objects_of_size(n)) == truth[n] and spec.count_objects_of_size(n) == len(truth[n]) for n in range(N + 1))
                    k = (opts, dbc.__name__, ev, 'ok' if ok else 'WRONG')
                    if 'finite' in opts:
                        try:
                            e = spec.expand_verified()
                            ok2 = all(e.count_objects_of_size(n) == len(truth[n]) for n in range(N + 1)) and not list(e.unexpanded_verified_classes())
                            k += ('exp-ok' if ok2 else 'exp-WRONG',)
                        except Exception as ex:
                            k += ('exp-EXC ' + type(ex).__name__ + ' ' + str(ex)[:40].replace('\n', ' '),)
                except SpecificationNotFound:
                    k = (opts, dbc.__name__, ev, 'nospec')
                except Exception as e:
                    k = (opts, dbc.__name__, ev, 'EXC ' + type(e).__name__ + ' ' + str(e)[:50].replace('\n', ' '))
                res[k] += 1
                if res[k] == 1 and ('EXC' in str(k) or 'WRONG' in str(k)): print(k, T.key())
agg = Counter()
for k, v in res.items(): agg[k[3:]] += v
for k, v in sorted(agg.items(), key=str): print(v, k)
print('time', time.time() - t0)
